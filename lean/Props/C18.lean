/-
  C18 — save containers: writes keep data, hash tree and header mutually consistent.

  Model: `lv4Write` (IVFCLevel4Reader.write), `writeData` (IVFCHashTree.write_data: hash propagation and cache
  invalidation), `dpWrite` (DPFSLevel3.write_data), `updateHashes` (Partition/DISA/DIFF._update_hashes, _update_cmac),
  `genCmac` (cmac.py) in PyctrModel/Save/Container.lean.  SHA-256 is `H`, AES-CMAC is `mac`.

  Proved here: position bookkeeping, the read-only error, the no-op cases, that the descriptor / header / CMAC update
  leaves a file whose table-hash check succeeds on re-open (DIFF: hash of the descriptor; DISA: hash of the WHOLE active
  table with only this partition's descriptor replaced), the DPFS level-3 write (scatter to the active copies + frame), the
  hash path ("every touched block and every block that verified before has an intact chain to the updated master hashes")
  first on levels as arrays and then, through a refinement theorem, on the container model, with the file frame.
  Not a theorem: that a RE-OPENED container parses back to the same state (decided by the correspondence check with the
  independent reference reader), and soundness of the in-session verification caches after a write.
-/
import Proofs.SaveWrite
import Proofs.SaveHashPath
import Proofs.SaveWriteRefines
import Proofs.SaveSessionCache
namespace Pyctr.C18
open Pyctr Pyctr.Save

/-- a write of nothing (empty data, or at / past the end of level 4) returns 0 and changes nothing, writable or not -/
theorem C18_empty_write (H : Bytes → Bytes) (mac : Bytes → Bytes → Bytes) (cm : Option CmacScheme) (c : Cont) (pi : Nat)
    (p : PartSt) (hp : c.parts[pi]? = some p) (data : Bytes)
    (h : data = [] ∨ p.ivfc.lv4.size ≤ p.seek) : lv4Write H mac cm c pi data = .ok (0, c) := by
  unfold lv4Write
  rw [hp]
  simp only
  have : (if p.seek + data.length > p.ivfc.lv4.size then data.take (p.ivfc.lv4.size - p.seek) else data).isEmpty = true := by
    rcases h with h | h
    · subst h; simp
    · split
      · rw [show p.ivfc.lv4.size - p.seek = 0 by omega]; simp
      · rename_i hh
        have : data.length = 0 := by omega
        simp [List.length_eq_zero_iff.mp this]
  rw [if_pos this]

/-- writing to a container opened read-only raises the read-only error (an error returns no new state: nothing changes) -/
theorem C18_readonly (H : Bytes → Bytes) (mac : Bytes → Bytes → Bytes) (cm : Option CmacScheme) (c : Cont) (pi : Nat)
    (p : PartSt) (hp : c.parts[pi]? = some p) (data : Bytes) (hw : c.writable = false) (hne : writeClamp p data ≠ []) :
    lv4Write H mac cm c pi data = .error (.other "IVFCReadOnlyError") :=
  lv4Write_readonly H mac cm c pi p hp data hw hne

/-- sequential writes advance the position like an ordinary file of the level's size: a successful write returns the
    number of bytes that fit, moves this partition's position by exactly that, keeps its geometry, and does not touch
    the other partition's reader -/
theorem C18_position (H : Bytes → Bytes) (mac : Bytes → Bytes → Bytes) (cm : Option CmacScheme) (c : Cont) (pi : Nat)
    (p : PartSt) (hp : c.parts[pi]? = some p) (data : Bytes) (n : Nat) (c' : Cont)
    (h : lv4Write H mac cm c pi data = .ok (n, c')) :
    n = min data.length (p.ivfc.lv4.size - p.seek) ∧
      (∃ p', c'.parts[pi]? = some p' ∧ p'.seek = p.seek + n ∧ p'.ivfc = p.ivfc ∧ p'.difi = p.difi ∧ p'.dp = p.dp) ∧
      ∀ j, j ≠ pi → c'.parts[j]? = c.parts[j]? := by
  obtain ⟨h1, h2, h3⟩ := lv4Write_position H mac cm c pi p hp data n c' h
  exact ⟨by rw [h1, writeClamp_length], h2, h3⟩

/-- DIFF: after the descriptor update the file passes the table-hash check of a fresh open, and holds the CMAC of the
    new header when a scheme is supplied -/
theorem C18_update_diff (H : Bytes → Bytes) (mac : Bytes → Bytes → Bytes) (cm : Option CmacScheme) (c : Cont) (F : Bytes)
    (p : PartSt) (pd : Bytes) (F' header' : Bytes)
    (hk : c.kind = .diff) (hh : c.header.length = 0x100) (hH : ∀ x, (H x).length = 0x20)
    (hpd : pd.length = c.tableSize) (hne : pd ≠ []) (hoff : 0x200 ≤ c.tableOff) (hF : c.tableOff + c.tableSize ≤ F.length)
    (hmac : ∀ k x, (mac k x).length = 0x10)
    (h : updateHashes H mac cm c F p pd = .ok (F', header')) :
    slice F' c.tableOff c.tableSize = pd ∧ slice F' 0x100 0x100 = header' ∧ slice header' 0x34 0x20 = H pd ∧
      (∀ sch m, cm = some sch → genCmac H mac sch header' = .ok m → slice F' 0 0x10 = m) :=
  updateHashes_diff H mac cm c F p pd F' header' hk hh hH hpd hne hoff hF hmac h

/-- DISA: the header hash is the hash of the whole active table after replacing this partition's descriptor -/
theorem C18_update_disa (H : Bytes → Bytes) (mac : Bytes → Bytes → Bytes) (cm : Option CmacScheme) (c : Cont) (F : Bytes)
    (p : PartSt) (pd : Bytes) (F' header' : Bytes)
    (hk : c.kind = .disa) (hh : c.header.length = 0x100) (hH : ∀ x, (H x).length = 0x20)
    (hpd : p.descOff + pd.length ≤ c.tableSize) (hne : pd ≠ []) (hoff : 0x200 ≤ c.tableOff)
    (hF : c.tableOff + c.tableSize ≤ F.length) (hmac : ∀ k x, (mac k x).length = 0x10)
    (h : updateHashes H mac cm c F p pd = .ok (F', header')) :
    slice F' c.tableOff c.tableSize = overlay (slice F c.tableOff c.tableSize) p.descOff pd ∧
      slice F' 0x100 0x100 = header' ∧ slice header' 0x6C 0x20 = H (slice F' c.tableOff c.tableSize) ∧
      (∀ sch m, cm = some sch → genCmac H mac sch header' = .ok m → slice F' 0 0x10 = m) :=
  updateHashes_disa H mac cm c F p pd F' header' hk hh hH hpd hne hoff hF hmac h

/-- the CMAC schemes: what is hashed and MAC-ed (SAV0 wrapping for NOR0 / SIGN) -/
theorem C18_cmac_plain (H : Bytes → Bytes) (mac : Bytes → Bytes → Bytes) (c : CmacScheme) (header : Bytes)
    (h : c.sav0 = false) : genCmac H mac c header = .ok (mac c.key (H (c.magic ++ c.pre ++ header))) := by
  unfold genCmac; rw [h]; simp

theorem C18_cmac_sav0 (H : Bytes → Bytes) (mac : Bytes → Bytes → Bytes) (c : CmacScheme) (header : Bytes)
    (h : c.sav0 = true) (hl : header.length = 0x100) (hm : slice header 0 4 = [0x44, 0x49, 0x53, 0x41]) :
    genCmac H mac c header = .ok (mac c.key (H (c.magic ++ c.pre ++ H (sav0Magic ++ header)))) := by
  unfold genCmac; rw [h]; simp [hl, hm]

/-- **hash path** (on the levels as byte arrays; `absWrite` is `IVFCHashTree.write_data` with every level an array).  After a
    write of `data` at `offset` of level `idx`: the level is the old level with the data laid over it; the levels below it, all
    lengths and the number of master hashes are unchanged; and every block of the level that was touched, or whose chain was
    intact before, has an intact chain up to the updated master hashes.  (`ZeroHash`: SHA-256 of some block is 32 zero bytes —
    such a block reads as "uninitialised".) -/
theorem C18_hash_path (H : Bytes → Bytes) (bsOf : Nat → Nat) (hbs : ∀ i, 0 < bsOf i) (hH : ∀ x, (H x).length = 0x20)
    (hnz : ¬ ZeroHash H) (idx offset : Nat) (data : Bytes) (L : Nat → Bytes) (master : List Bytes) (L' : Nat → Bytes)
    (master' : List Bytes) (hlen : 0 < data.length) (hin : offset + data.length ≤ (L idx).length)
    (hgeo : ∀ i, i < idx → nblocks (L (i + 1)).length (bsOf (i + 1)) * 0x20 ≤ (L i).length)
    (h : absWrite H bsOf idx offset data (L, master) = .ok (L', master')) :
    (∀ j, idx < j → L' j = L j) ∧ L' idx = overlay (L idx) offset data ∧ (∀ j, (L' j).length = (L j).length) ∧
      master'.length = master.length ∧
      ∀ b, b * bsOf idx < (L idx).length → (touched offset data.length (bsOf idx) b ∨ chainOK H bsOf master L idx b) →
        chainOK H bsOf master' L' idx b :=
  absWrite_chain H bsOf hbs hH hnz idx offset data L master L' master' hlen hin hgeo h

/-- and at every level at or above the written one, a block whose chain was intact keeps an intact chain: a write never
    invalidates anything that verified before, at any level of the tree -/
theorem C18_hash_path_all_levels (H : Bytes → Bytes) (bsOf : Nat → Nat) (hbs : ∀ i, 0 < bsOf i) (hH : ∀ x, (H x).length = 0x20)
    (hnz : ¬ ZeroHash H) (idx offset : Nat) (data : Bytes) (L : Nat → Bytes) (master : List Bytes) (L' : Nat → Bytes)
    (master' : List Bytes) (hlen : 0 < data.length) (hin : offset + data.length ≤ (L idx).length)
    (hgeo : ∀ i, i < idx → nblocks (L (i + 1)).length (bsOf (i + 1)) * 0x20 ≤ (L i).length)
    (h : absWrite H bsOf idx offset data (L, master) = .ok (L', master')) (lvl : Nat) (hl : lvl ≤ idx) (b : Nat)
    (hb : b * bsOf lvl < (L lvl).length) (hc : chainOK H bsOf master L lvl b) : chainOK H bsOf master' L' lvl b :=
  absWrite_chain_all H bsOf hbs hH hnz idx offset data L master L' master' hlen hin hgeo h lvl hl b hb hc

/-- hence a fully verifying tree stays fully verifying and its verified level-4 view becomes the old view with the data laid
    over it -/
theorem C18_view (H : Bytes → Bytes) (bsOf : Nat → Nat) (hbs : ∀ i, 0 < bsOf i) (hH : ∀ x, (H x).length = 0x20)
    (hnz : ¬ ZeroHash H) (offset : Nat) (data : Bytes) (L : Nat → Bytes) (master : List Bytes) (L' : Nat → Bytes)
    (master' : List Bytes) (hlen : 0 < data.length) (hin : offset + data.length ≤ (L 3).length)
    (hgeo : ∀ i, i < 3 → nblocks (L (i + 1)).length (bsOf (i + 1)) * 0x20 ≤ (L i).length)
    (hall : ∀ b, b * bsOf 3 < (L 3).length → chainOK H bsOf master L 3 b)
    (h : absWrite H bsOf 3 offset data (L, master) = .ok (L', master')) :
    (∀ b, b * bsOf 3 < (L' 3).length → chainOK H bsOf master' L' 3 b) ∧
      verifiedView H L' bsOf master' = overlay (verifiedView H L bsOf master) offset data :=
  absWrite_view H bsOf hbs hH hnz offset data L master L' master' hlen hin hgeo hall h

/-- `DPFSLevel3.write_data`: a non-empty write inside the level-3 view puts every byte into the copy that the level-2 bit of
    its block selects (`scatter`), so the view becomes the old view with the data laid over it; nothing else in the partition
    window and nothing outside it changes -/
theorem C18_dpfs_write (w0 : Win) (dp : Dp) (hwf : DpWF w0.bytes dp) (offset : Nat) (data : Bytes) (hne : data ≠ [])
    (hin : offset + data.length ≤ dp.lv3.size) :
    ∃ w', dpWrite w0 dp offset data = .ok (data.length, w') ∧ w'.off = w0.off ∧ w'.size = w0.size ∧ w'.F.length = w0.F.length ∧
      (∀ z, (z < w0.off ∨ w0.off + w0.size ≤ z) → w'.F[z]? = w0.F[z]?) ∧
      (∀ x, offset ≤ x → x < offset + data.length → w'.bytes[scatter dp x]? = data[x - offset]?) ∧
      (∀ y, (∀ x, offset ≤ x → x < offset + data.length → y ≠ scatter dp x) → w'.bytes[y]? = w0.bytes[y]?) :=
  dpWrite_spec w0 dp hwf offset data hne hin

/-- refinement: on a regular geometry (`geomOK`, decidable, evaluated by the driver on every write of every run) the model's
    `IVFCHashTree.write_data` — DPFS copies, sequential re-read, recursion up the levels — computes on the levels of the
    partition exactly what `absWrite` computes, and leaves the file outside the partition window alone -/
theorem C18_refines (H : Bytes → Bytes) (t : Tree) (hH : ∀ x, (H x).length = 0x20) (idx : Nat) (hidx : idx < 4) (offset : Nat)
    (data : Bytes) (s s' : WState) (hg : geomOK s.w.bytes t s.master = true) (hne : data ≠ [])
    (hin : offset + data.length ≤ (t.level idx).size) (h : writeData H t idx offset data s = .ok s') :
    absWrite H (fun i => (t.level i).bs) idx offset data (Lof s.w.bytes t, s.master) = .ok (Lof s'.w.bytes t, s'.master) ∧
      s'.w.off = s.w.off ∧ s'.w.size = s.w.size ∧ s'.w.F.length = s.w.F.length ∧
      (∀ z, (z < s.w.off ∨ s.w.off + s.w.size ≤ z) → s'.w.F[z]? = s.w.F[z]?) := by
  obtain ⟨a, b, c, d, e, _⟩ := writeData_refines H t hH idx hidx offset data s s' (geomOK_spec _ _ _ hg) hne hin h
  exact ⟨a, b, c, d, e⟩

/-- **hash path and frame on the container model** (`IVFCLevel4Reader.write` = clamp, `write_data`, descriptor / header / CMAC
    update).  `Bd` separates the header, the tables and the re-serialised descriptor (below) from the partition (at or above). -/
theorem C18_write_hash_path (H : Bytes → Bytes) (mac : Bytes → Bytes → Bytes) (cm : Option CmacScheme) (c : Cont) (pi : Nat)
    (p : PartSt) (hp : c.parts[pi]? = some p) (data : Bytes) (n : Nat) (c' : Cont)
    (hH : ∀ x, (H x).length = 0x20) (hmac : ∀ k x, (mac k x).length = 0x10) (hnz : ¬ ZeroHash H) (hh : c.header.length = 0x100)
    (hg : geomOK (p.P c.F) p.tree p.master = true) (hne : writeClamp p data ≠ [])
    (Bd : Nat) (hB1 : 0x200 ≤ Bd) (hB2 : Bd ≤ p.pOff) (hB3 : p.pOff ≤ c.F.length)
    (hdesc : ∀ m pd, partdescToBytes ⟨p.difi, p.ivfc, p.dpfs, m⟩ p.descSize = some pd → c.tableOff + p.descOff + pd.length ≤ Bd)
    (h : lv4Write H mac cm c pi data = .ok (n, c')) :
    ∃ p', c'.parts[pi]? = some p' ∧ p'.tree = p.tree ∧ p'.pOff = p.pOff ∧ p'.pSize = p.pSize ∧
      Lof (p'.P c'.F) p.tree 3 = overlay (Lof (p.P c.F) p.tree 3) p.seek (writeClamp p data) ∧
      (∀ b, b * (p.tree.level 3).bs < (Lof (p.P c.F) p.tree 3).length →
        (touched p.seek (writeClamp p data).length (p.tree.level 3).bs b ∨ chainOK H p.bsOf p.master (Lof (p.P c.F) p.tree) 3 b) →
        chainOK H p.bsOf p'.master (Lof (p'.P c'.F) p.tree) 3 b) ∧
      c'.F.length = c.F.length ∧
      (∀ z, Bd ≤ z → (z < p.pOff ∨ p.pOff + p.pSize ≤ z) → c'.F[z]? = c.F[z]?) :=
  lv4Write_hash_path H mac cm c pi p hp data n c' hH hmac hnz hh hg hne Bd hB1 hB2 hB3 hdesc h

/-- opening a container gives a state that is *synced* with its file: re-opening the file yields the same header, table
    position, and per partition the same descriptor fields, master hashes and DPFS selection (everything but caches / positions) -/
theorem C18_open_synced (H : Bytes → Bytes) (kind : Kind) (F : Bytes) (w : Bool) (c : Cont) (h : openCont H kind F w = .ok c) :
    Synced H c := open_synced H kind F w c h

/-- **re-opening after a write (DIFF)**: `Synced` is preserved by every write through the verified level-4 view - so after any
    sequence of writes, opening the file again parses back the very state the session ended with (new master hashes included),
    and with `C18_write_hash_path` the re-opened level 4 is the old one with the data laid over it, every touched block verifying.
    Side conditions, all decidable and evaluated by the driver on every generated image (`save-hyp`: letters g, t, w, r):
    regular geometry, DPFS tables outside the data windows, a well-formed descriptor, header/table below the partition. -/
theorem C18_reopen_diff (H : Bytes → Bytes) (mac : Bytes → Bytes → Bytes) (cm : Option CmacScheme) (c : Cont)
    (p : PartSt) (hk : c.kind = .diff) (hp : c.parts[0]? = some p) (data : Bytes) (n : Nat) (c' : Cont)
    (hH : ∀ x, (H x).length = 0x20) (hmac : ∀ k x, (mac k x).length = 0x10)
    (hs : Synced H c)
    (hg : geomOK (p.P c.F) p.tree p.master = true)
    (hta : tablesApartB p.dpfs p.tree = true)
    (hwf : descWFB ⟨p.difi, p.ivfc, p.dpfs, p.master⟩ p.descSize = true)
    (hL1 : 0x200 ≤ c.tableOff) (hL2 : c.tableOff + c.tableSize ≤ p.pOff) (hL3 : p.pOff ≤ c.F.length)
    (h : lv4Write H mac cm c 0 data = .ok (n, c')) : Synced H c' :=
  lv4Write_synced_diff H mac cm c p hk hp data n c' hH hmac hs (geomOK_spec _ _ _ hg) (tablesApart_of_b _ _ hta) (descWF_of_b _ _ hwf) hL1 hL2 hL3 h

/-- **re-opening after a write (DISA, either partition)** -/
theorem C18_reopen_disa (H : Bytes → Bytes) (mac : Bytes → Bytes → Bytes) (cm : Option CmacScheme) (c : Cont) (pi : Nat)
    (p : PartSt) (hk : c.kind = .disa) (hp : c.parts[pi]? = some p) (data : Bytes) (n : Nat) (c' : Cont)
    (hH : ∀ x, (H x).length = 0x20) (hmac : ∀ k x, (mac k x).length = 0x10)
    (hs : Synced H c)
    (hg : geomOK (p.P c.F) p.tree p.master = true)
    (hta : tablesApartB p.dpfs p.tree = true)
    (hwf : descWFB ⟨p.difi, p.ivfc, p.dpfs, p.master⟩ p.descSize = true)
    (hL : reopenLayoutB c pi p = true)
    (h : lv4Write H mac cm c pi data = .ok (n, c')) : Synced H c' :=
  lv4Write_synced_disa H mac cm c pi p hk hp data n c' hH hmac hs (geomOK_spec _ _ _ hg) (tablesApart_of_b _ _ hta)
    (descWF_of_b _ _ hwf) (disaLayout_of_b _ _ _ hL) h

/-- **every session, either container kind**: open a container that meets the (decidable) regularity conditions, make ANY
    sequence of seeks, reads and writes through the verified level-4 views of its partitions (stopping at the first exception):
    re-opening the file afterwards gives exactly the state the session holds - same header, same descriptors, same master
    hashes, same DPFS selection.  The regularity conditions themselves are part of the invariant (`Good`): they are proved to
    survive every operation, so they need to be checked on the opened image only - the driver does so for every generated
    image (`save-hyp`). -/
theorem C18_reopen_session (H : Bytes → Bytes) (mac : Bytes → Bytes → Bytes) (cm : Option CmacScheme) (kind : Kind) (F : Bytes)
    (w : Bool) (c c' : Cont) (ops : List Lv4Op)
    (hH : ∀ x, (H x).length = 0x20) (hmac : ∀ k x, (mac k x).length = 0x10)
    (ho : openCont H kind F w = .ok c) (hr : regularB c = true)
    (hrun : lv4Run H mac cm c ops = .ok c') : Synced H c' ∧ ∀ pi p, c'.parts[pi]? = some p → PartOK c' pi p :=
  have hG := lv4Run_good H mac cm hH hmac ops c c' (good_of_regular H kind F w c ho hr) hrun
  ⟨hG.1, hG.2⟩

/-- **same session, a write** (on a regular container whose tree verifies completely, caches sound): the invariant survives
    - in particular every verification cache is still sound although only the entries of the touched blocks were dropped -,
    the written partition's verified view is the old view with the clamped data laid over it at the reader's position, the
    position advances by the byte count returned, and no other partition's view changes.  `¬ ZeroHash H`: the hash function
    never outputs 32 zero bytes (such a block would read as "uninitialised"). -/
theorem C18_session_write (H : Bytes → Bytes) (mac : Bytes → Bytes → Bytes) (cm : Option CmacScheme) (c : Cont) (pi : Nat)
    (data : Bytes) (n : Nat) (c' : Cont)
    (hH : ∀ x, (H x).length = 0x20) (hmac : ∀ k x, (mac k x).length = 0x10) (hnz : ¬ ZeroHash H)
    (hG : Good3 H c) (h : lv4Write H mac cm c pi data = .ok (n, c')) :
    Good3 H c' ∧ ∃ p p', c.parts[pi]? = some p ∧ c'.parts[pi]? = some p' ∧
      n = (writeClamp p data).length ∧ p'.seek = p.seek + n ∧
      p'.view H c'.F = (if writeClamp p data = [] then p.view H c.F else overlay (p.view H c.F) p.seek (writeClamp p data)) ∧
      ∀ j q, j ≠ pi → c.parts[j]? = some q → c'.parts[j]? = some q ∧ q.view H c'.F = q.view H c.F :=
  lv4Write_good3 H mac cm c pi data n c' hH hmac hnz hG h

/-- **same session, a read**: returns the slice of the partition's current view at the reader's position (clamped like a file
    read), advances the position by the bytes returned, changes no file byte and keeps the invariant -/
theorem C18_session_read (H : Bytes → Bytes) (c : Cont) (pi : Nat) (size : Int) (d : Bytes) (c' : Cont)
    (hG : Good3 H c) (h : contRead H c pi size = .ok (d, c')) :
    Good3 H c' ∧ c'.F = c.F ∧ ∃ p, c.parts[pi]? = some p ∧
      d = slice (p.view H c.F) p.seek (readCount p.ivfc.lv4.size p.seek size) ∧
      ∃ ca, c'.parts = c.parts.set pi { p with caches := ca, seek := p.seek + d.length } :=
  contRead_good3 H c pi size d c' hG h

/-- **every session on a fully verifying regular container**: the invariant `Good3` (re-opening gives the session's state;
    caches sound; tree fully verifying; regularity) holds after any sequence of seeks, reads and writes - so by the two step
    theorems above each partition's verified view behaves like an ordinary file under those operations, in the session, and by
    `C18_reopen_session` the same view is what a fresh open shows.  `regularB` and `allValidB` are decidable and evaluated by the
    driver on every generated image (`save-hyp`, letters r and v). -/
theorem C18_session (H : Bytes → Bytes) (mac : Bytes → Bytes → Bytes) (cm : Option CmacScheme) (kind : Kind) (F : Bytes)
    (w : Bool) (c c' : Cont) (ops : List Lv4Op)
    (hH : ∀ x, (H x).length = 0x20) (hmac : ∀ k x, (mac k x).length = 0x10) (hnz : ¬ ZeroHash H)
    (ho : openCont H kind F w = .ok c) (hr : regularB c = true)
    (hv : c.parts.all (fun p => allValidB H p.tree p.master (p.P c.F)) = true)
    (hrun : lv4Run H mac cm c ops = .ok c') : Good3 H c' :=
  lv4Run_good3 H mac cm hH hmac hnz ops c c' (good3_of_open H kind F w c ho hr hv) hrun

end Pyctr.C18
