/-
  C08 — key scrambler and keyslot state stay coherent under any key-operation sequence.
-/
import Proofs.EngineProofs
import Proofs.SdKeyFrame
namespace Pyctr.C08
open Pyctr Pyctr.Engine

/-- Python's `rol` on unbounded ints is the 128-bit rotation (every rotation amount the code uses) -/
theorem C08_rol (v r : Nat) (hr : r < 128) (hr0 : 0 < r) :
    pyRol v r 128 = ((BitVec.ofNat 128 v).rotateLeft r).toNat := pyRol_eq v r hr hr0

/-- 3DS scrambler: for *all* X, Y (carries out of bit 127 and every rotation-boundary bit included) the code's
    unbounded-integer arithmetic equals the 128-bit hardware formula, big-endian -/
theorem C08_scrambler_3ds (x y : Nat) :
    keygen3ds x y = toBE 16 (scr3ds (BitVec.ofNat 128 x) (BitVec.ofNat 128 y)).toNat := keygen3ds_eq x y

/-- DSi scrambler -/
theorem C08_scrambler_twl (x y : Nat) :
    keygenTwl x y = toBE 16 (scrTwl (BitVec.ofNat 128 x) (BitVec.ofNat 128 y)).toNat := keygenTwl_eq x y

/-- slots 0-3 use the DSi formula, slots >= 4 the 3DS formula -/
theorem C08_formula_choice (slot x y : Nat) :
    keygenSlot slot x y = if slot < 4 then keygenTwl x y else keygen3ds x y := rfl

/-- byte-string keys: big-endian for slots > 3, little-endian for slots 0-3 -/
theorem C08_endianness (slot : Nat) (key : Bytes) :
    keyToInt slot key = if slot > 3 then readBE key else readLE key := rfl

/-- the coherence invariant is preserved by every key operation … -/
theorem C08_coherent_step (ge : GEngine) (h : Coherent ge) (op : KeyOp) : Coherent (gstep ge op) :=
  coherent_step ge h op

/-- … hence holds after any operation sequence on any engine (however it was constructed): a slot whose last
    X/Y set had updating on with both halves present, or that was refreshed with both halves present, holds the
    scrambler output; a directly set normal key persists until X or Y of that slot is set again. -/
theorem C08_coherent (e : Engine) (ops : List KeyOp) : Coherent (ops.foldl gstep ⟨e, fun _ => .free⟩) :=
  coherent_run ops _ (coherent_init e)

/-- ciphers and wrappers are created with exactly the slot's normal key; a slot without one raises the
    missing-keyslot error -/
theorem C08_factories (e : Engine) (slot : Nat) :
    (∀ k, e.normal slot = some k → e.cipherKey slot = .ok k) ∧
    (e.normal slot = none → e.cipherKey slot = .error (.other "KeyslotMissingError")) := by
  constructor
  · intro k h; simp [cipherKey, h]
  · intro h; simp [cipherKey, h]

/-- clone independence at the heap level: an operation on one engine of the heap leaves every other engine
    (in particular the one it was cloned from) exactly as it was -/
theorem C08_clone_indep (heap : EngineHeap) (i j : Nat) (e' : Engine) (hij : i ≠ j) :
    (heap.set i e')[j]? = heap[j]? := by
  simp [List.getElem?_set, hij]

/-- a clone starts as an exact copy -/
theorem C08_clone_copy (heap : EngineHeap) (i : Nat) (e : Engine) (h : heap[i]? = some e) :
    (heap ++ [e])[heap.length]? = some e ∧ (heap ++ [e])[i]? = some e := by
  constructor
  · simp
  · have hi : i < heap.length := by
      rcases Nat.lt_or_ge i heap.length with hl | hl
      · exact hl
      · rw [List.getElem?_eq_none hl] at h; cases h
    rw [List.getElem?_append_left hi]; exact h

/-- non-vacuity: an addition that carries out of bit 127, and a formula/direct/deferred mix -/
example : keygen3ds ((1 <<< 128) - 1) 0 = toBE 16 (scr3ds (BitVec.ofNat 128 ((1 <<< 128) - 1)) 0).toNat :=
  C08_scrambler_3ds _ _

example : let ge := [KeyOp.setX 0x2C 5 true, .setY 0x2C 9 true, .setNormal 0x30 [1], .setX 3 7 false].foldl gstep
            ⟨Engine.create false none, fun _ => .free⟩
    (ge.e.normal 0x2C = some (keygen3ds 5 9)) ∧ ge.e.normal 0x30 = some [1] := by decide

/-- **compound key-setting operations stay in their slots**: `setup_sd_key` (movable.sed KeyY into SD 0x34, CMAC-SD/NAND 0x30,
    DSiWare export 0x3A, each with its normal key regenerated) leaves KeyX, KeyY and the normal key of every other slot - a
    directly set normal key, a slot whose halves were set without updating - exactly as they were -/
theorem C08_sd_key_frame (H : Bytes → Bytes) (e e' : Engine) (data id0 : Bytes) (h : Sd.setupSdKey H e data = .ok (e', id0))
    (s : Nat) (h1 : s ≠ 0x34) (h2 : s ≠ 0x30) (h3 : s ≠ 0x3A) :
    e'.normal s = e.normal s ∧ e'.keyX s = e.keyX s ∧ e'.keyY s = e.keyY s ∧ e'.dev = e.dev :=
  sd_key_frame H e e' data id0 h s h1 h2 h3

end Pyctr.C08
