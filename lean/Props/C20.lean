/-
  C20 — codec round trips (placeholder while the theorems are written).
-/
import Proofs.TmdBits
import PyctrModel.Fmt.Codecs
namespace Pyctr.C20
open Pyctr

/-- every 16-bit word survives TitleVersion.from_int → int -/
theorem C20_version_word (w : Nat) (h : w < 65536) : Tmd.Version.toInt (Tmd.Version.ofInt w) = w := Tmd.version_word_all w h

end Pyctr.C20
