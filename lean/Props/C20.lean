/-
  C20 — parse/serialise and compress/decompress pairs are mutual inverses.

  Models: PyctrModel/Fmt/Codecs.lean (SMDH titles / flags / region lockout / icon, seed database, config savegame),
  PyctrModel/Fmt/Lzss.lean (backward LZSS decoder), PyctrModel/Save/Desc.lean (DIFI / IVFC / DPFS), PyctrModel/Fmt/Nand.lean
  (NCSD header), PyctrModel/Fmt/Tmd.lean (TitleVersion / ContentTypeFlags words).
  The LZSS round trip is decided by the correspondence check with a reference compressor in the harness (pyctr has no
  compressor to model); the decoder's termination and bounds are theorems of C19.
-/
import Proofs.CodecProofs
import Proofs.TmdBits
import Proofs.NandProofs
import Proofs.ConfigProofs
import Proofs.SaveReopen
import Proofs.LzssRoundtrip
namespace Pyctr.C20
open Pyctr

/-- TitleVersion: every 16-bit word survives from_int → int, and every (major, minor, micro) in range survives int → from_int -/
theorem C20_version_word (w : Nat) (h : w < 65536) : Tmd.Version.toInt (Tmd.Version.ofInt w) = w := Tmd.version_word_all w h

/-- ContentTypeFlags: every flag set survives int → from_int; a word survives from_int → int iff it uses only the five flag bits -/
theorem C20_typeflags_value (f : Tmd.TypeFlags) : Tmd.TypeFlags.ofInt f.toInt = f := Tmd.typeFlags_roundtrip f
theorem C20_typeflags_word (w : Nat) (h : w < 65536) (hc : w &&& 0x3FF8 = 0) : (Tmd.TypeFlags.ofInt w).toInt = w :=
  Tmd.flags_word_canonical w h hc

/-- SMDH flags: any set of the eleven flags is read back from the word a builder writes; other bits are ignored -/
theorem C20_smdh_flags : ∀ (a b c d e f g h i j k : Bool),
    Smdh.Flags.ofWord (Smdh.Flags.toWord ⟨a, b, c, d, e, f, g, h, i, j, k⟩) = ⟨a, b, c, d, e, f, g, h, i, j, k⟩ :=
  Smdh.flags_roundtrip
theorem C20_smdh_flags_mask (w : Nat) : Smdh.Flags.ofWord w = Smdh.Flags.ofWord (w &&& 0x15FF) := Smdh.flags_only_bits w

/-- SMDH region lockout: any subset of the seven regions reads back (RegionFree false); the region-free constant reads all-true -/
theorem C20_smdh_region : ∀ (a b c d e f g : Bool),
    Smdh.Region.ofWord (Smdh.Region.toWord [a, b, c, d, e, f, g] false) = ⟨a, b, c, d, e, f, g, false⟩ := Smdh.region_roundtrip
theorem C20_smdh_region_free : Smdh.Region.ofWord (Smdh.Region.toWord [] true) = ⟨true, true, true, true, true, true, true, true⟩ :=
  Smdh.region_free

/-- SMDH application title: value → bytes → value, for texts of well-formed UTF-16 (non-BMP included) up to the field width
    without NUL at either end -/
theorem C20_apptitle_value (t : Smdh.AppTitle) (h1 : Smdh.GoodField t.short 0x80) (h2 : Smdh.GoodField t.long 0x100)
    (h3 : Smdh.GoodField t.publisher 0x80) : Smdh.AppTitle.fromBytes t.toBytes = .ok t := Smdh.apptitle_roundtrip t h1 h2 h3

/-- … and canonical image → value → image -/
theorem C20_apptitle_image (t : Smdh.AppTitle) (h1 : Smdh.GoodField t.short 0x80) (h2 : Smdh.GoodField t.long 0x100)
    (h3 : Smdh.GoodField t.publisher 0x80) (raw : Bytes) (hraw : raw = t.toBytes) :
    (Smdh.AppTitle.fromBytes raw).map Smdh.AppTitle.toBytes = .ok raw := Smdh.apptitle_canonical t h1 h2 h3 raw hraw

/-- SMDH icon: the decoder's address map is Morton order in row-major 8×8 tiles, for every pixel of both icons -/
theorem C20_icon_morton_24 : ∀ x, x < 24 → ∀ y, y < 24 → Smdh.tileIndex x y 24 = Smdh.mortonSpec x y 24 := Smdh.tile_is_morton_24
theorem C20_icon_morton_48 : ∀ x, x < 48 → ∀ y, y < 48 → Smdh.tileIndex x y 48 = Smdh.mortonSpec x y 48 := Smdh.tile_is_morton_48

/-- colour expansion for all 65536 RGB565 values -/
theorem C20_icon_colour (n : Nat) (h : n < 65536) :
    Smdh.rgb565 n = (n / 2048 * 255 / 31, n / 32 % 64 * 255 / 63, n % 32 * 255 / 31) := Smdh.rgb565_all n h

/-- **icon decoding is the exact inverse of Morton tiling with RGB565 → RGB888 expansion** -/
theorem C20_icon_roundtrip (pix : Nat → Nat → Nat) (w : Nat) (hw : w = 24 ∨ w = 48) (hpix : ∀ y x, pix y x < 65536) :
    Smdh.loadTiled (Smdh.tileImage pix w w) w w = (List.range w).map fun y => (List.range w).map fun x => Smdh.rgb565 (pix y x) :=
  Smdh.loadTiled_tileImage pix w hw hpix

/-- seed database: save → load gives the same entries in the same order (ids that fit, 16-byte seeds, distinct ids) -/
theorem C20_seeddb (db : List (Nat × Bytes)) (h : SeedDb.WF db) : ∃ b, SeedDb.save db = some b ∧ SeedDb.load [] b = .ok db :=
  SeedDb.seeddb_roundtrip db h

/-- save partition descriptors: value → bytes → value (block-size exponents ≤ 63: larger ones are rejected on parsing) -/
theorem C20_difi (x : Save.Difi) (b : Bytes) (h : x.toBytes = some b) : Save.Difi.fromBytes b = .ok x := Save.difi_roundtrip x b h
theorem C20_ivfc (x : Save.Ivfc) (b : Bytes) (h : x.toBytes = some b)
    (hs : x.lv1.sane = true ∧ x.lv2.sane = true ∧ x.lv3.sane = true ∧ x.lv4.sane = true) : Save.Ivfc.fromBytes b = .ok x :=
  Save.ivfc_roundtrip x b h hs
/-- the partition descriptor as a whole (DIFI + IVFC + DPFS + master hashes at the offsets the DIFI header names, in a
    zero-filled array of the descriptor's size): `load_partdesc(partdesc_to_bytes(x)) = x` when the four fields lie inside
    and do not overlap (decidable; evaluated on every generated save image) -/
theorem C20_partdesc (x : Save.PartDesc) (size : Nat) (pd : Bytes) (wf : Save.descWFB x size = true)
    (h : Save.partdescToBytes x size = some pd) : pd.length = size ∧ Save.loadPartdesc pd = .ok x :=
  Save.partdesc_roundtrip x size pd (Save.descWF_of_b x size wf) h

theorem C20_dpfs (x : Save.Dpfs) (b : Bytes) (h : x.toBytes = some b)
    (hs : x.lv1.sane = true ∧ x.lv2.sane = true ∧ x.lv3.sane = true) : Save.Dpfs.fromBytes b = .ok x :=
  Save.dpfs_roundtrip x b h hs

/-- config savegame image: value → bytes → value for every block list the strict `set_block` can build (known ids with the
    table's flags and sizes, no id twice); `to_bytes` succeeding is the only other premise (it fails when the data do not fit) -/
theorem C20_cfg_image (bl : List ConfigSave.Block) (hwf : ConfigSave.WF bl) (img : Bytes) (hb : ConfigSave.toBytes bl = .ok img) :
    ConfigSave.load img = .ok bl := ConfigSave.cfg_roundtrip bl hwf img hb

/-- ... and bytes → value → bytes for a canonical image (one that `to_bytes` produces) -/
theorem C20_cfg_canonical (bl : List ConfigSave.Block) (hwf : ConfigSave.WF bl) (img : Bytes) (hb : ConfigSave.toBytes bl = .ok img) :
    ∃ bl', ConfigSave.load img = .ok bl' ∧ ConfigSave.toBytes bl' = .ok img :=
  ⟨bl, ConfigSave.cfg_roundtrip bl hwf img hb, hb⟩

example : ConfigSave.WF [⟨0x000A0000, 0xE, zeros 28⟩, ⟨0x000F0004, 0xC, [2, 0, 0, 0]⟩, ⟨0x00030001, 0xE, zeros 8⟩] :=
  ⟨by decide, by decide, by decide⟩

/-- config blocks: what `set_block` stores is what `get_block` returns, and no other block changes -/
theorem C20_cfg_set_get (blocks blocks' : List ConfigSave.Block) (id : Nat) (data : Bytes) (flags : Option Nat)
    (h : ConfigSave.setBlock blocks id data flags = .ok blocks') :
    (∃ fl, ConfigSave.getBlock blocks' id = .ok ⟨id, fl, data⟩) ∧
      ∀ j, j ≠ id → ConfigSave.getBlock blocks' j = ConfigSave.getBlock blocks j :=
  ⟨ConfigSave.setBlock_get _ _ _ _ _ h, fun j hj => ConfigSave.setBlock_other _ _ _ j _ _ h hj⟩

/-- a block added without explicit flags gets the flags of the strict table (so that the image loads again) -/
theorem C20_cfg_default_flags (blocks blocks' : List ConfigSave.Block) (id : Nat) (data : Bytes)
    (h : ConfigSave.setBlock blocks id data none = .ok blocks') (hnew : blocks.find? (·.id == id) = none) :
    ∃ efl, ConfigSave.knownOf id = some (efl, data.length) ∧ ConfigSave.getBlock blocks' id = .ok ⟨id, efl, data⟩ :=
  ConfigSave.setBlock_default blocks blocks' id data h hnew

/-- typed accessors: user name (well-formed UTF-16, no NUL, at most 14 code units), RTC offset (< 2^64), system model -/
theorem C20_cfg_username (blocks blocks' : List ConfigSave.Block) (v : Smdh.U16s) (hfit : 2 * v.length ≤ 28)
    (hu : ∀ x, x ∈ v → x < 65536) (hnz : ∀ x, x ∈ v → x ≠ 0) (h : ConfigSave.usernameSet blocks v = .ok blocks') :
    ConfigSave.usernameGet blocks' = .ok v := ConfigSave.username_roundtrip blocks blocks' v hfit hu hnz h

theorem C20_cfg_time (blocks blocks' : List ConfigSave.Block) (v : Nat) (hv : v < 2 ^ 64)
    (h : ConfigSave.timeSet blocks (v : Int) = .ok blocks') : ConfigSave.timeGet blocks' = .ok v :=
  ConfigSave.time_roundtrip blocks blocks' v hv h

theorem C20_cfg_model (blocks blocks' : List ConfigSave.Block) (m : Nat) (hm : m ≤ 5)
    (h : ConfigSave.modelSet blocks (m : Int) = .ok blocks') :
    ConfigSave.modelGet blocks' = .ok m ∧
    ∀ b, ConfigSave.getBlock blocks 0x000F0004 = .ok b →
      ∃ fl, ConfigSave.getBlock blocks' 0x000F0004 = .ok ⟨0x000F0004, fl, UInt8.ofNat m :: b.data.drop 1⟩ :=
  ConfigSave.model_roundtrip blocks blocks' m hm h

/-- NAND NCSD header: image → value → image (unused slots zero) -/
theorem C20_ncsd_image (b : Bytes) (hd : Nand.Header) (h : Nand.Header.fromBytes b = .ok hd)
    (hwf : Nand.UnusedZero (slice b 0x110 8) (slice b 0x118 8) (slice b 0x120 0x40)) : hd.toBytes = b :=
  Nand.header_roundtrip b hd h hwf

/-! non-vacuity: a concrete good title -/
example : Smdh.GoodField [0x41, 0xD83D, 0xDE00, 0x42] 0x80 := by
  refine ⟨by decide, ?_, by decide, by decide, by decide⟩
  intro x hx; simp at hx; rcases hx with h | h | h | h <;> subst h <;> decide


/-- **ExeFS code decompression inverts every disciplined backward-LZSS compressor.**  A compressor chooses an uncompressed
    head `P`, token groups `gs` (literals and back references in decoding order) and padding; `Lzss.encodeFile` is the image
    layout, `Lzss.validB` the discipline (12-bit offsets into already decoded data, 4-bit lengths, groups of eight, the
    write pointer never overtaking the read pointer, field widths of the footer).  For EVERY such choice — any data, any
    match structure incl. overlapping references, maximum distance and length, any size up to the format's limit —
    `decompress_code` returns the head followed by what the tokens stand for.  The harness's reference compressor is tied
    to this statement on every run: its token lists go through `encodeFile` / `validB` in the driver (`lzss-enc`), the image
    must be byte-identical to the compressor's own and `validB` must hold. -/
theorem C20_lzss_roundtrip (P : Bytes) (gs : List (List Lzss.Tok)) (pad : Nat) (hv : Lzss.validB P gs pad = true) :
    Lzss.decompress (Lzss.encodeFile P gs pad) = .ok (P ++ Lzss.expand gs []) := Lzss.decompress_encode P gs pad hv

/-- **decompress ∘ compress = id**, for the reference compressor of the model (`Lzss.compress`: greedy longest match from the
    end of the data, longest in-place-decodable token prefix, self-checking): every image it returns decompresses to the
    original, for every input and padding.  The compiled model runs this compressor in the correspondence check and pyctr
    decompresses its images. -/
theorem C20_lzss_compress (x : Bytes) (pad : Nat) (img : Bytes) (h : Lzss.compress x pad = some img) :
    Lzss.decompress img = .ok x := Lzss.decompress_compress x pad img h

/-- what the tokens stand for has the announced size: the decompressed image is `|P| + totalOut gs` bytes long -/
theorem C20_lzss_size (gs : List (List Lzss.Tok)) : (Lzss.expand gs []).length = Lzss.totalOut gs := by
  simpa using Lzss.expand_length gs []

/-- non-vacuity: three literals and five overlapping maximum-length references (22 stream bytes for 93 bytes of data) -/
example : Lzss.validB [9, 9] [[.lit 1, .lit 2, .lit 3, .ref 0 15, .ref 0 15, .ref 0 15, .ref 0 15, .ref 0 15]] 0 = true := by
  decide

end Pyctr.C20
