/-
  C11 — title metadata: parse/serialise are inverse and every record is hash-protected.
  `H` is SHA-256 (a parameter).  A well-formed TMD is the serialisation of a well-formed value `WFv`
  (every signature type, any title id / version / save sizes / reserved bytes, up to 64 info records, any chunk
  records); equality of the model's `serialize` with what an independent 3dbrew-layout builder produces is part
  of the correspondence check.
-/
import Proofs.TmdTamper
namespace Pyctr.C11
open Pyctr Pyctr.Tmd

/-- serialising then parsing reproduces an equal object -/
theorem C11_serialize_parse (H : Bytes → Bytes) (t : T) (sz pad : Nat) (w : WFv H t sz pad) :
    ∃ b, serialize H t = some b ∧ load H true b = .ok t :=
  ⟨_, (load_serialize H t sz pad w).1, (load_serialize H t sz pad w).2⟩

/-- parsing then serialising reproduces the input bytes (for every byte string that is a well-formed TMD) -/
theorem C11_parse_serialize (H : Bytes → Bytes) (t : T) (sz pad : Nat) (w : WFv H t sz pad) (b : Bytes)
    (hb : serialize H t = some b) : ∃ t', load H true b = .ok t' ∧ serialize H t' = some b := by
  have h := load_serialize H t sz pad w
  rw [h.1] at hb; cases hb
  exact ⟨t, h.2, h.1⟩

/-- title-version and content-type flag words (the two bit-packed 16-bit fields) -/
theorem C11_version_word (w : Nat) (h : w < 65536) : Version.toInt (Version.ofInt w) = w := version_word_all w h
theorem C11_flags_value (f : TypeFlags) : TypeFlags.ofInt f.toInt = f := typeFlags_roundtrip f

/-- no modification of the content-info block can make loading succeed (unless SHA-256 collides) -/
theorem C11_tamper_info (H : Bytes → Bytes) (t : T) (sz pad : Nat) (w : WFv H t sz pad) (b' : Bytes)
    (hlen : b'.length = (segments H t sz pad).flatten.length)
    (hout : ∀ i, (i < 4 + sz + pad + 0xC4 ∨ 4 + sz + pad + 0xC4 + 0x900 ≤ i) → b'[i]? = (segments H t sz pad).flatten[i]?)
    (hdiff : b' ≠ (segments H t sz pad).flatten) :
    load H true b' = .error (.other "InvalidHashError") ∨ Collision H := tamper_info H t sz pad w b' hlen hout hdiff

/-- no modification of the chunk records can make loading succeed with a covered record that differs from the
    original (unless SHA-256 collides): the chunk-record area is replaced by arbitrary bytes `raw` -/
theorem C11_tamper_chunk (H : Bytes → Bytes) (t : T) (sz pad : Nat) (w : WFv H t sz pad) (raw : Bytes)
    (hraw : raw.length = 0x30 * t.chunkRecords.length) :
    (∃ e, load H true (segsWith H t sz pad raw).flatten = .error e) ∨
    (∃ t', load H true (segsWith H t sz pad raw).flatten = .ok t' ∧ t'.infoRecords = t.infoRecords ∧
        ∀ ir ∈ t.infoRecords, covered t'.chunkRecords ir = covered t.chunkRecords ir) ∨
    Collision H := tamper_chunk H t sz pad w raw hraw

/-- the untampered serialisation is the case `raw = the original chunk area` -/
theorem C11_segsWith_orig (H : Bytes → Bytes) (t : T) (sz pad : Nat) :
    segments H t sz pad = segsWith H t sz pad (t.chunkRecords.flatMap ChunkRecord.bytes) := rfl

/-- non-vacuity: a TMD with three chunk records covered by two info records (and bytes >= 0x80 in the
    single-byte header fields) is well-formed -/
def exT : T :=
  { sigType := 0x10004, signature := List.replicate 0x100 0xFF, issuer := [0x52, 0x6F, 0x6F, 0x74],
    version := 0x80, caCrl := 0xFF, signerCrl := 0, reserved1 := 0x81,
    systemVersion := List.replicate 8 1, titleId := [0, 4, 0x80, 0, 1, 2, 3, 4], titleType := List.replicate 4 2,
    groupId := [9, 9], saveSize := 0xFFFFFFFF, srlSaveSize := 0, reserved2 := List.replicate 4 3, srlFlag := 0xFE,
    reserved3 := List.replicate 0x31 0x99, accessRights := List.replicate 4 4, titleVersion := ⟨63, 63, 15⟩,
    bootCount := [5, 5], padding := [6, 6],
    infoRecords := [⟨0, 2, List.replicate 32 0⟩, ⟨2, 1, List.replicate 32 0⟩],
    chunkRecords := [⟨[0, 0, 0, 1], 0, ⟨true, false, false, false, false⟩, 0x1000, List.replicate 32 0xA1⟩,
                     ⟨[0, 0, 0, 2], 1, ⟨true, false, false, true, false⟩, 0x2000, List.replicate 32 0xA2⟩,
                     ⟨[0, 0, 0, 3], 2, ⟨false, false, false, false, true⟩, 0, List.replicate 32 0xA3⟩] }

example : WFv (fun _ => List.replicate 32 0) exT 0x100 0x3C where
  sig := rfl
  sig_len := List.length_replicate
  issuer_len := by decide
  issuer_ascii := by decide
  issuer_nonul := by intro b h; cases h; decide
  pk := by decide
  l_sysver := List.length_replicate
  l_tid := rfl
  l_ttype := List.length_replicate
  l_gid := rfl
  l_r2 := List.length_replicate
  l_r3 := List.length_replicate
  l_ar := List.length_replicate
  l_boot := rfl
  l_pad := rfl
  ver := by decide
  chunks := by
    intro c hc
    simp only [exT, List.mem_cons, List.not_mem_nil, or_false] at hc
    rcases hc with rfl | rfl | rfl <;> exact ⟨by decide, by decide, by decide, by decide⟩
  infos := by
    intro r hr
    simp only [exT, List.mem_cons, List.not_mem_nil, or_false] at hr
    rcases hr with rfl | rfl <;> exact ⟨by decide, by decide, by decide, by decide⟩
  infos_len := by decide
  hH := rfl
  verified := rfl

end Pyctr.C11
