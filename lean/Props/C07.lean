/-
  C07 — ExeFS reader reproduces entries and bytes and honours documented name aliases.
-/
import Proofs.ExefsProofs
import Proofs.SubRefines
import Proofs.PyFileRefines
namespace Pyctr.C07
open Pyctr Pyctr.Exefs

/-- the reader reports exactly the stored names, offsets, sizes and hashes (any slot positions, up to ten entries) -/
theorem C07_roundtrip (table : List (Option Entry)) (hlen : table.length = 10) (hwf : ∀ o ∈ table, WfSlot o)
    (hdist : (stored table).Pairwise (fun a b => a.name ≠ b.name)) :
    parse (build table) = .ok (stored table) := parse_build table hlen hwf hdist

/-- every stored name N (not starting with '/', not ending in '.bin') can be opened as N, /N, N.bin and /N.bin -/
theorem C07_alias (N : Bytes) (hne : N ≠ []) (h1 : N.head? ≠ some 0x2F)
    (h2 : endsWith (N.map lowerAscii) dotBin = false) :
    normalize N = N ∧ normalize ((0x2F : UInt8) :: N) = N ∧ normalize (N ++ dotBin) = N ∧
    normalize ((0x2F : UInt8) :: (N ++ dotBin)) = N := by
  refine ⟨?_, ?_, ?_, ?_⟩
  · rw [normalize, stripSlash_noslash N h1, stripBin_plain N h2]
  · rw [normalize, stripSlash_cons, stripBin_plain N h2]
  · rw [normalize, stripSlash_noslash _ (by rw [head_append_ne N _ hne]; exact h1), stripBin_bin]
  · rw [normalize, stripSlash_cons, stripBin_bin]

/-- hence opening any of the four spellings of a stored name yields that entry -/
theorem C07_alias_lookup (es : List Entry) (e : Entry) (he : es.find? (·.name == e.name) = some e)
    (hne : e.name ≠ []) (h1 : e.name.head? ≠ some 0x2F) (h2 : endsWith (e.name.map lowerAscii) dotBin = false) :
    lookup es e.name = .ok e ∧ lookup es ((0x2F : UInt8) :: e.name) = .ok e ∧
    lookup es (e.name ++ dotBin) = .ok e ∧ lookup es ((0x2F : UInt8) :: (e.name ++ dotBin)) = .ok e := by
  obtain ⟨a, b, c, d⟩ := C07_alias e.name hne h1 h2
  simp only [lookup, if_true, a, b, c, d, he, and_self]

/-- a name that is not stored raises the not-found error -/
theorem C07_missing (es : List Entry) (p : Bytes) (h : ∀ e ∈ es, e.name ≠ normalize p) :
    lookup es p = .error (.other "ExeFSFileNotFoundError") := by
  have : es.find? (·.name == normalize p) = none := by
    rw [List.find?_eq_none]; intro e he; simpa using h e he
  simp [lookup, this]

/-- an entry offset that is not a multiple of 0x200 / a name byte >= 0x80 in a non-empty slot is rejected -/
theorem C07_reject_slot (header : Bytes) (i : Nat) (hraw : (slice header (16 * i) 16 == zeros 16) = false) :
    ((rstripNul (slice (slice header (16 * i) 16) 0 8)).any (· ≥ 0x80) = true →
        parseSlot header i = .error (.other "ExeFSNameError")) ∧
    ((rstripNul (slice (slice header (16 * i) 16) 0 8)).any (· ≥ 0x80) = false →
      readLE (slice (slice header (16 * i) 16) 8 4) % 0x200 ≠ 0 →
        parseSlot header i = .error (.other "BadOffsetError")) := by
  constructor
  · intro h; simp [parseSlot, hraw, h]
  · intro h h'; simp [parseSlot, hraw, h, h']

/-- an error in any slot (all earlier slots parsing) is the reader's result -/
theorem C07_reject (header : Bytes) (i : Nat) (hi : i < 10) (e : Err) (herr : parseSlot header i = .error e)
    (hok : ∀ j < i, ∃ r, parseSlot header j = .ok r) : parse header = .error e := by
  have key : ∀ (n j : Nat) (acc : List Entry), j ≤ i → i < j + n → parseFrom header n j acc = .error e := by
    intro n
    induction n with
    | zero => intro j acc h1 h2; omega
    | succ m ih =>
      intro j acc h1 h2
      by_cases hji : j = i
      · subst hji; simp [parseFrom, herr]
      · obtain ⟨r, hr⟩ := hok j (by omega)
        simp only [parseFrom, hr]
        cases r with
        | none => exact ih (j + 1) acc (by omega) (by omega)
        | some x => exact ih (j + 1) _ (by omega) (by omega)
  exact key 10 0 [] (by omega) (by omega)

/-- opening an entry gives a window `[start + 0x200 + offset, +size)` of the file, hence (C09) exactly its bytes at
    every offset and nothing beyond them -/
theorem C07_bytes (buf : Bytes) (start : Nat) (e : Entry) (h : start + 0x200 + e.offset + e.size ≤ buf.length) :
    Sub.invSub (fun _ => True) PyFile.abs ⟨⟨buf, 0⟩, start + 0x200 + e.offset, e.size, 0⟩ ∧
    (Sub.absSub PyFile.abs ⟨⟨buf, 0⟩, start + 0x200 + e.offset, e.size, 0⟩).content =
      slice buf (start + 0x200 + e.offset) e.size :=
  ⟨⟨trivial, by simpa [PyFile.abs] using h⟩, rfl⟩

/-- non-vacuity: a table with two stored entries meets every hypothesis of `C07_roundtrip` -/
example :
    let t : List (Option Entry) :=
      [some ⟨[0x2E, 0x63, 0x6F, 0x64, 0x65], 0, 0x201, List.replicate 32 7⟩, none, none,
       some ⟨[0x69, 0x63, 0x6F, 0x6E], 0x400, 0x36C0, List.replicate 32 9⟩, none, none, none, none, none, none]
    t.length = 10 ∧ (∀ o ∈ t, WfSlot o) ∧ (stored t).Pairwise (fun a b => a.name ≠ b.name) ∧ (stored t).length = 2 := by
  refine ⟨rfl, ?_, by decide, rfl⟩
  intro o ho
  simp only [List.mem_cons, List.not_mem_nil, or_false] at ho
  rcases ho with h | h | h | h | h | h | h | h | h | h <;> subst h <;>
    first
    | trivial
    | exact ⟨by decide, by decide, by decide, by decide, by decide, by decide, by decide⟩

end Pyctr.C07
