/-
  C10 — CCI, CDN and SD-title containers expose exactly the NCCHs packed in them.
  The data planes (windows, CBC contents, SD CTR files, nested NCCH readers) are C09 / C02 / C14 / C03; this file
  holds the container-specific logic.
-/
import PyctrModel.Fmt.Cci
import Proofs.SubRefines
import Proofs.PyFileRefines
import Proofs.CbcRefines
import Proofs.CdnProofs
namespace Pyctr.C10
open Pyctr

/-- a cartridge image whose magic is wrong, or whose media id is zero (a NAND header), is rejected -/
theorem C10_cci_reject (file : Bytes) (start : Nat)
    (h : slice (slice file (start + 0x100) 0x100) 0 4 ≠ [0x4E, 0x43, 0x53, 0x44] ∨
         slice (slice file (start + 0x100) 0x100) 8 8 = zeros 8) :
    Cci.parse file start = .error (.other "InvalidCCIError") := by
  unfold Cci.parse
  rcases h with h | h
  · simp [h]
  · by_cases hm : slice (slice file (start + 0x100) 0x100) 0 4 ≠ [0x4E, 0x43, 0x53, 0x44]
    · simp [hm]
    · simp [hm, h]

/-- the listed partitions are exactly the table entries with a non-zero offset, at offset·0x200 with size·0x200 -/
theorem C10_cci_partitions (header : Bytes) (p : Cci.Part) :
    p ∈ Cci.partsOf header ↔
      p.index < 8 ∧ p.offset = Cci.le header (0x20 + 8 * p.index) 4 * 0x200 ∧ p.offset ≠ 0 ∧
      p.size = Cci.le header (0x24 + 8 * p.index) 4 * 0x200 := by
  simp only [Cci.partsOf, List.mem_filterMap, List.mem_range]
  constructor
  · rintro ⟨i, hi, h⟩
    split at h
    · rename_i hne
      cases h
      exact ⟨hi, rfl, hne, rfl⟩
    · cases h
  · rintro ⟨hi, ho, hne, hs⟩
    refine ⟨p.index, hi, ?_⟩
    rw [← ho, if_pos hne]
    cases p; simp_all

/-- each partition view is the window `[start + offset, + size)` of the image: exactly the packed NCCH bytes (C09) -/
theorem C10_cci_view (buf : Bytes) (lo size : Nat) (h : lo + size ≤ buf.length) :
    Sub.invSub (fun _ => True) PyFile.abs ⟨⟨buf, 0⟩, lo, size, 0⟩ ∧
    (Sub.absSub PyFile.abs ⟨⟨buf, 0⟩, lo, size, 0⟩).content = slice buf lo size :=
  ⟨⟨trivial, by simpa [PyFile.abs] using h⟩, rfl⟩

/-- CDN content selection: the lower-case file name wins, the upper-case one is the fallback, a record whose file is
    missing is skipped … -/
theorem C10_cdn_choose (isfile : Bytes → Bool) (lo up : Bytes) :
    Cdn.chooseFile isfile lo up =
      if isfile lo then some lo else if isfile up then some up else none := rfl

/-- … without affecting the other records: selection is a `filterMap` over the TMD records, so the selected list is
    the sublist of records whose file exists, in TMD order -/
theorem C10_cdn_selection (isfile : Bytes → Bool) (names : Tmd.ChunkRecord → Bytes × Bytes)
    (records : List Tmd.ChunkRecord) :
    (Cdn.select isfile names records).map (·.1) =
      records.filter fun r => isfile (names r).1 || isfile (names r).2 := by
  induction records with
  | nil => rfl
  | cons r rest ih =>
    simp only [Cdn.select, List.filterMap_cons, Cdn.chooseFile] at ih ⊢
    by_cases h1 : isfile (names r).1
    · simp [h1, List.filter_cons, ← ih, Cdn.select, Cdn.chooseFile]
    · by_cases h2 : isfile (names r).2
      · simp [h1, h2, List.filter_cons, ← ih, Cdn.select, Cdn.chooseFile]
      · simp [h1, h2, List.filter_cons, ← ih, Cdn.select, Cdn.chooseFile]

/-- content views of a CDN directory: CBC under the title key over the content file (C02) or the plain file -/
theorem C10_cdn_view (D : Bytes → Bytes) :
    IsReadOnly (CbcIO.ops PyFile.ops D) (CbcIO.invCbc (fun _ => True) PyFile.abs) (CbcIO.absCbc D PyFile.abs) :=
  CbcIO.cbc_isReadOnly D pyfile_isFile.toIsReadable

/-- SD title directories: the listed contents are exactly the TMD records whose `<id>.app` exists, in TMD order - a missing
    file removes its own record and nothing else (a `break` instead of `continue` falsifies this) -/
theorem C10_sdtitle_selection (isfile : Bytes → Bool) (name : Tmd.ChunkRecord → Bytes) (records : List Tmd.ChunkRecord) :
    SdTitle.select isfile name records = records.filter fun r => isfile (name r) := by
  unfold SdTitle.select
  have key : ∀ (acc : List Tmd.ChunkRecord),
      records.foldl (fun acc r => if !isfile (name r) then acc else acc ++ [r]) acc =
        acc ++ records.filter fun r => isfile (name r) := by
    induction records with
    | nil => intro acc; simp
    | cons r rest ih =>
      intro acc
      simp only [List.foldl_cons, List.filter_cons]
      by_cases h : isfile (name r) = true
      · rw [h]
        simp only [Bool.not_true, Bool.false_eq_true, if_false, if_true]
        rw [ih]; simp
      · have h' : isfile (name r) = false := by simpa using h
        rw [h']
        simp only [Bool.not_false, if_true, Bool.false_eq_true, if_false]
        rw [ih]
  simpa using key []

/-- **CDN title key, every source**: a supplied decrypted title key is used as it is (whatever else is supplied); the
    encrypted title key with its common-key index, and the ticket file `cetk` (of which only the first 0x2AC bytes are
    read), both yield the packed title key — for every engine that has the common-key KeyX (retail, and dev for an index
    other than 0), given that AES decryption inverts encryption -/
theorem C10_cdn_key_sources (E D : Bytes → Bytes → Bytes) (hED : ∀ k b, b.length = 16 → D k (E k b) = b) (hE : ∀ k b, b.length = 16 → (E k b).length = 16)
    (e : Engine) (x ky idx : Nat) (k tid : Bytes) (hx : e.keyX 0x3D = some x) (hk : k.length = 16) (htid : tid.length = 8)
    (hidx : Engine.commonKeyY[idx]? = some ky) (hnd : ¬ (e.dev = true ∧ idx = 0)) :
    let encTk := E (keygenSlot 0x3D x ky) (xorBytes k (tid ++ zeros 8))
    (∀ enc i c, (Cdn.setupKey D e tid k enc i c).1.normal 0x40 = some k) ∧
    (∀ c, (Cdn.setupKey D e tid [] encTk idx c).1.normal 0x40 = some k) ∧
    (∀ ticket : Bytes, 0x2AC ≤ ticket.length → slice ticket 0x1BF 16 = encTk → (ticket.getD 0x1F1 0).toNat = idx →
      slice ticket 0x1DC 8 = tid → ∀ i, (Cdn.setupKey D e tid [] [] i (some ticket)).1.normal 0x40 = some k) :=
  cdn_key_sources E D hED hE e x ky idx k tid hx hk htid hidx hnd

/-- **frame of the cartridge header**: what `CCIReader` makes of an image (accept / reject, media id, image size, the list
    of partitions with their offsets and sizes) depends on four fields only — magic, size, media id, partition table.
    Every other header byte (partition file-system / crypt types, the partition FLAGS incl. the media-unit exponent and
    the SDK 2.x card-device byte, hashes, reserved areas) and everything outside the header is irrelevant -/
theorem C10_cci_frame (file file' : Bytes) (start start' : Nat) (h : Cci.relevant file start = Cci.relevant file' start') :
    Cci.parse file start = Cci.parse file' start' := Cci.parse_frame file file' start start' h

end Pyctr.C10
