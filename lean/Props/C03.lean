/-
  C03 — every NCCH section view yields the section plaintext under every crypto scheme.
  `E key block` is AES-128, `H` SHA-256 (parameters).  Stack semantics (window, CTR wrapper, merged file) come from
  the C09 / C01 refinement theorems; this file adds the NCCH-specific decision logic.
-/
import Proofs.NcchViews
import Proofs.EngineProofs
import Proofs.CtrRefines
import Proofs.SubRefines
import Proofs.PyFileRefines
namespace Pyctr.C03
open Pyctr Pyctr.Ncch

/-- keyslot table: fixed key ⇒ zero key (0x41) or system key (0x42) by bit 36 of the program id, for both slots … -/
theorem C03_slots_fixed (f : Flags) (prog : Nat) (h : f.fixedKey = true) :
    slotsOf f prog = .ok (if prog &&& (0x10 <<< 32) != 0 then (0x42, 0x42) else (0x41, 0x41)) := by
  simp only [slotsOf, h, if_true]; split <;> rfl

/-- … otherwise primary slot 0x2C and the secondary slot of the crypto method (unknown method: KeyError) -/
theorem C03_slots_normal (f : Flags) (prog : Nat) (h : f.fixedKey = false) :
    slotsOf f prog = match extraSlotOf f.cryptoMethod with
      | some x => .ok (0x2C, x)
      | none => .error .keyError := by
  unfold slotsOf; simp only [h, Bool.false_eq_true, if_false]; rfl

theorem C03_method_table :
    extraSlotOf 0 = some 0x2C ∧ extraSlotOf 1 = some 0x25 ∧ extraSlotOf 0xA = some 0x18 ∧ extraSlotOf 0xB = some 0x1B := by
  decide

/-- a seed that does not match the header's verification hash is refused; a matching one yields
    KeyY' = SHA-256(KeyY ++ seed)[:16] -/
theorem C03_seed (H : Bytes → Bytes) (keyY : Bytes) (prog : Nat) (verify seed : Bytes) :
    seededKeyY H true keyY prog verify (some seed) =
      if slice (H (seed ++ toLE 8 prog)) 0 4 != verify then .error (.other "NCCHSeedError")
      else .ok (some (slice (H (keyY ++ seed)) 0 16)) := rfl

theorem C03_seed_missing (H : Bytes → Bytes) (keyY : Bytes) (prog : Nat) (verify : Bytes) :
    seededKeyY H true keyY prog verify none = .error (.other "MissingSeedError") := rfl

/-- the secondary normal key (slot 0x44) is the 3DS scrambler of KeyX of the secondary slot and the (seeded) KeyY -/
theorem C03_extra_key (eng : Engine) (f : Flags) (extraSlot x : Nat) (keyY : Bytes) (sy : Option Bytes)
    (hnc : f.noCrypto = false) (hfx : f.fixedKey = false) (hx : eng.keyX extraSlot = some x) :
    ∃ e', setupExtraKey eng f false extraSlot keyY sy = .ok e' ∧
      e'.normal 0x44 = some (keygen3ds x (readBE (sy.getD keyY))) := by
  have hkx : ∀ (e : Engine) (s k : Nat) (u : Bool), (e.setKeyslot true s k u).keyX s = some k := by
    intro e s k u
    unfold Engine.setKeyslot
    cases u <;> simp only [if_true, Bool.false_eq_true, if_false] <;> (try split) <;> simp [Engine.upd]
  have hyn : ∀ (e : Engine) (s x y : Nat), e.keyX s = some x →
      (e.setKeyslot false s y true).normal s = some (keygenSlot s x y) := by
    intro e s x y hx'
    unfold Engine.setKeyslot
    simp [Engine.upd, hx']
  refine ⟨(eng.setKeyslot true 0x44 x true).setKeyslotBytes false 0x44 (sy.getD keyY) true,
    by simp [setupExtraKey, hnc, hfx, hx], ?_⟩
  rw [Engine.setKeyslotBytes, hyn _ _ x _ (hkx eng 0x44 x true)]
  simp [keygenSlot, Engine.keyToInt]

/-- the ExeFS range list: for sorted, non-overlapping secondary-key intervals inside the ExeFS it tiles the region … -/
theorem C03_ranges_tile (size : Nat) (ex : List (Nat × Nat)) (hs : SortedFrom 0 ex) (hin : ∀ iv ∈ ex, iv.2 ≤ size) :
    Tiles (buildRanges ex size) 0 size := rangesFrom_tiles size ex 0 hs hin (Nat.zero_le _)

/-- … and colours a byte "secondary key" exactly when it lies in one of the intervals (adjacent secondary-key files,
    empty files and files that are exact multiples of the media unit included) -/
theorem C03_ranges_colour (size : Nat) (ex : List (Nat × Nat)) (p : Nat) (hs : SortedFrom 0 ex) (hp : p < size)
    (hin : ∀ iv ∈ ex, iv.2 ≤ size) : colourAt (buildRanges ex size) p = some (inExtra ex p) :=
  rangesFrom_colour size ex 0 p hs (Nat.zero_le _) hp hin

/-- the merged ExeFS view, byte by byte: ciphertext XOR the keystream byte at the byte's position in the region
    (counter running continuously), under the key its range dictates -/
theorem C03_exefs_bytes (E : Bytes → Bytes → Bytes) (file : Bytes) (off size iv : Nat) (km ke : Bytes)
    (l : List KRange) (ht : Tiles l 0 size) (hsz : (slice file off size).length = size) (p : Nat) (hp : p < size) :
    (mergedBytes E file off size iv (l.map fun g => (if g.extra then ke else km, g.lo, g.hi)) 0 size)[p]? =
      ((slice file off size)[p]?).map (· ^^^ ksByte (E (if (colourAt l p).getD false then ke else km)) iv p) :=
  mergedBytes_byte E file off size iv km ke l ht hsz p hp

/-- ExtHeader / RomFS / plain ExeFS views: a CTR wrapper over the section window is the whole-section decryption,
    at every offset and length (C01 over C09) -/
theorem C03_ctr_view (E : Bytes → Bytes) :
    IsReadable (CtrIO.ops (Sub.ops PyFile.ops) E)
      (CtrIO.invCtr (Sub.invSub (fun _ => True) PyFile.abs) (Sub.absSub PyFile.abs))
      (CtrIO.absCtr E (Sub.absSub PyFile.abs)) :=
  CtrIO.ctr_isReadable E (Sub.sub_isReadable pyfile_isFile.toIsReadable)

/-- flagged unencrypted / assume-decrypted: no key is set up and every section view is the plain window -/
theorem C03_plain_modes (s : State) (start sec : Nat) (r : Region) (hs : s.section? sec = some r)
    (h : s.assumeDecrypted = true ∨ s.flags.noCrypto = true) :
    openGeneric s start sec = .ok (.window (start + r.offset) r.size) := by
  unfold openGeneric
  rcases h with h | h <;> simp [hs, h]

/-- non-vacuity: two adjacent secondary-key files followed by `icon` -/
example : buildRanges [(0x200, 0x600), (0x600, 0x630)] 0xA00 =
    [⟨0, 0x200, false⟩, ⟨0x200, 0x600, true⟩, ⟨0x600, 0x630, true⟩, ⟨0x630, 0xA00, false⟩] := by decide

end Pyctr.C03
