/-
  C17 — save containers: verified reads return the active, authentic data or nothing.

  Model: PyctrModel/Save/{Desc,Tree,Container}.lean mirror `partition.py`, `dpfs.py`, `ivfc.py`, `disa.py`, `diff.py`
  (value semantics: the file is a byte list, the result caches are association lists).  Specification:
  PyctrModel/Save/Spec.lean (`dpfsView`, `specValid`, `verifiedView`, `chainOK`, `ContOK`, `ReachRO`).
  SHA-256 is the parameter `H`.
-/
import Proofs.SaveCont
import Proofs.SaveActive
namespace Pyctr.C17
open Pyctr Pyctr.Save

/-- the level-3 data file returns slices of the view: `read(n)` inside the view … -/
theorem C17_dpfs_read (P : Bytes) (dp : Dp) (hwf : DpWF P dp) (seek n : Nat) (h : seek + n ≤ dp.lv3.size) :
    dpRead P dp seek (n : Int) = .ok (slice (dpfsView P dp) seek n) :=
  dpRead_view P dp hwf seek n h

/-- … and `read(-1)` / a read running past the end returns everything up to the end of the view -/
theorem C17_dpfs_read_all (P : Bytes) (dp : Dp) (hwf : DpWF P dp) (seek : Nat) (n : Int)
    (hneg : n < 0 ∨ (seek : Int) + n > dp.lv3.size) (h : seek ≤ dp.lv3.size) :
    dpRead P dp seek n = .ok (slice (dpfsView P dp) seek (dp.lv3.size - seek)) :=
  dpRead_all P dp hwf seek n hneg h

/-- the view is, byte by byte, the copy that the level-2 bit of the byte's block selects (first copy at the level-3
    offset, second copy `size` bytes later) and has exactly `size` bytes -/
theorem C17_dpfs_active_copy (P : Bytes) (dp : Dp) (hwf : DpWF P dp) :
    (dpfsView P dp).length = dp.lv3.size ∧
    ∀ x, x < dp.lv3.size → (dpfsView P dp)[x]? = P[dp.lv3.offset + chunkOf dp (x / dp.lv3.bs) + x]? :=
  ⟨dpfsView_length P dp hwf, fun x hx => dpfsView_getElem P dp hwf x hx⟩

/-- the IVFC levels are windows of that view (level 4 possibly an external window of the partition) -/
theorem C17_levels (P : Bytes) (t : Tree) (hwf : TreeWF P t) (idx off n : Nat) :
    levelRead P t idx off n = .ok (slice (levelBytes P t idx) off n) :=
  levelRead_spec P t hwf idx off n

/-- cache soundness: whatever the cache holds from earlier calls (as long as each entry is what a fresh computation
    gives *for that level and block*), `get_block` returns the stored block and the cache-free validity, and leaves
    a sound cache.  A cache keyed by block number alone falsifies this. -/
theorem C17_cache_sound (H : Bytes → Bytes) (rd : Nat → Nat → Nat → Except Err Bytes) (bsOf : Nat → Nat)
    (master : List Bytes) (idx : Nat) (hidx : idx < 4) (block : Nat) (deep : Bool) (c : Caches)
    (hc : CacheOK H rd bsOf master c) (d : Bytes) (v : Option Bool) (c' : Caches)
    (h : getBlockG H rd bsOf master idx block true deep c = .ok (d, v, c')) :
    rd idx (block * bsOf idx) (bsOf idx) = .ok d ∧ specValid H rd bsOf master deep idx block = .ok v ∧
      CacheOK H rd bsOf master c' :=
  getBlockG_sound H rd bsOf master idx hidx block deep c hc d v c' h

/-- the verified view shows the stored block exactly where the chain is intact and filler of the same length elsewhere -/
theorem C17_verified_block (H : Bytes → Bytes) (L : Nat → Bytes) (bsOf : Nat → Nat) (master : List Bytes) (b : Nat) :
    (chainOK H bsOf master L 3 b → verifiedBlock H L bsOf master b = slice (L 3) (b * bsOf 3) (bsOf 3)) ∧
    (¬ chainOK H bsOf master L 3 b →
      verifiedBlock H L bsOf master b = List.replicate (slice (L 3) (b * bsOf 3) (bsOf 3)).length 0xDD) := by
  unfold chainOK verifiedBlock
  constructor
  · intro h; simp only [h]
  · intro h
    split
    · rename_i hv; exact absurd hv h
    · rfl

/-- **verified reads.**  Open a container, perform reads / seeks / `get_block` calls in any order on any partition,
    then read: the result is the slice of the verified view of the *file as opened* at the reader's position —
    independent of what was read before. -/
theorem C17_verified_read (H : Bytes → Bytes) (kind : Kind) (F : Bytes) (w : Bool) (c0 c c' : Cont)
    (hopen : openCont H kind F w = .ok c0) (hreach : ReachRO H c0 c) (pi : Nat) (n : Int) (d : Bytes)
    (hread : contRead H c pi n = .ok (d, c')) :
    ∃ p, c.parts[pi]? = some p ∧
      (TreeWF (p.P F) p.tree →
        d = slice (verifiedView H (levelBytes (p.P F) p.tree) p.bsOf p.master) p.seek
              (readCount p.ivfc.lv4.size p.seek n)) := by
  have h0 := openCont_ok H kind F w c0 hopen
  obtain ⟨hF, hk⟩ := reachRO_ok H c0 c h0 hreach
  have hF0 := (openCont_parts H kind F w c0 hopen).1
  obtain ⟨_, _, p, hp, hspec⟩ := contRead_spec H c hk pi n d c' hread
  rw [hF, hF0] at hspec
  exact ⟨p, hp, hspec⟩

/-- **tamper evidence.**  Two level contents of the same geometry under the same master hashes cannot both carry an
    intact chain for a block on which they differ — unless SHA-256 collides. -/
theorem C17_tamper (H : Bytes → Bytes) (bsOf : Nat → Nat) (master : List Bytes) (L L' : Nat → Bytes)
    (hlen : ∀ i, (L i).length = (L' i).length) (hdiv : ∀ up, up < 3 → 0 < bsOf up ∧ 0x20 ∣ bsOf up) (b : Nat)
    (h : chainOK H bsOf master L 3 b) (h' : chainOK H bsOf master L' 3 b) :
    slice (L 3) (b * bsOf 3) (bsOf 3) = slice (L' 3) (b * bsOf 3) (bsOf 3) ∨ Collision H :=
  chain_tamper H bsOf master L L' hlen 3 hdiv b h h'

/-- hence what the verified view of an altered file shows for an authentic block is that block or filler: altered
    contents are never returned as valid -/
theorem C17_tamper_view (H : Bytes → Bytes) (bsOf : Nat → Nat) (master : List Bytes) (L L' : Nat → Bytes)
    (hlen : ∀ i, (L i).length = (L' i).length) (hdiv : ∀ up, up < 3 → 0 < bsOf up ∧ 0x20 ∣ bsOf up) (b : Nat)
    (horig : chainOK H bsOf master L 3 b) :
    verifiedBlock H L' bsOf master b = slice (L 3) (b * bsOf 3) (bsOf 3) ∨
      verifiedBlock H L' bsOf master b = List.replicate (slice (L 3) (b * bsOf 3) (bsOf 3)).length 0xDD ∨ Collision H :=
  verified_tamper H bsOf master L L' hlen hdiv b horig

/-- a DIFF whose active partition descriptor does not match the hash in its header is rejected -/
theorem C17_table_hash_diff (H : Bytes → Bytes) (F : Bytes) (w : Bool)
    (hm : slice (slice F 0x100 0x100) 0 8 = diffMagic)
    (hh : H (slice F (diffDescOff (slice F 0x100 0x100)) (le (slice F 0x100 0x100) 0x18 8)) ≠
          slice (slice F 0x100 0x100) 0x34 0x20) :
    openCont H .diff F w = .error (.other "CorruptPartitionError") :=
  openDiff_reject H F w hm hh

/-- a DISA whose active partition table does not match the hash in its header is rejected -/
theorem C17_table_hash_disa (H : Bytes → Bytes) (F : Bytes) (w : Bool)
    (hm : slice (slice F 0x100 0x100) 0 8 = disaMagic)
    (hh : H (slice F (disaTableOff (slice F 0x100 0x100)) (le (slice F 0x100 0x100) 0x20 8)) ≠
          slice (slice F 0x100 0x100) 0x6C 0x20) :
    openCont H .disa F w = .error (.other "CorruptPartitionError") :=
  openDisa_reject H F w hm hh

/-! non-vacuity: a concrete four-level chain that is intact (H = pad/truncate to 32 bytes, one 32-byte block per level) -/
def exH : Bytes → Bytes := fun x => (x ++ zeros 32).take 32
def exB : Bytes := List.replicate 32 7
example : chainOK exH (fun _ => 32) [exB] (fun _ => exB) 3 0 := by
  unfold chainOK; rfl

/-- **the active table**: zero selects the primary copy, ANY other value of the field the secondary one — DIFF reads a 32-bit
    little-endian word at 0x30 (all four bytes count: 0x100 or 0x80000000 select the secondary), DISA the byte at 0x68 -/
theorem C17_active_choice (header : Bytes) :
    ((∀ b ∈ slice header 0x30 4, b = 0) → diffDescOff header = le header 0x10 8) ∧
    ((∃ b ∈ slice header 0x30 4, b ≠ 0) → diffDescOff header = le header 0x8 8) ∧
    (header.getD 0x68 0 = 0 → disaTableOff header = le header 0x18 8) ∧
    (header.getD 0x68 0 ≠ 0 → disaTableOff header = le header 0x10 8) := active_choice header

end Pyctr.C17
