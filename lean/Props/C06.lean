/-
  C06 — RomFS reader reproduces the packed directory tree and file bytes exactly.
  `lower` (str.lower) is a parameter.  A packed RomFS is characterised by the decidable predicate `repDir`
  ("the metadata tables represent this tree"); the independent builder's images are checked against it on every
  run, and the theorems below then apply to them.
-/
import Proofs.RomfsProofs
import Proofs.SubRefines
import Proofs.PyFileRefines
namespace Pyctr.C06
open Pyctr Pyctr.Romfs

/-- the directory walk: any represented tree — any shape, depth, sibling count, names — is reproduced exactly -/
theorem C06_walk (e : Env) (t : Tree) (fuel : Nat) (hrep : repDir e (slice e.dm 0 0x18) t = true)
    (hfuel : needIter t ≤ fuel) (hd : t.numDirs ≤ e.maxDirs) (hf : t.numFiles ≤ e.maxFiles) (hdist : Distinct e t) :
    iterDir e fuel (slice e.dm 0 0x18) ⟨0, 0⟩ = .ok (shapeContents e t, ⟨t.numDirs, t.numFiles⟩) :=
  walk_represented e t fuel hrep hfuel hd hf hdist

/-- the fuel the reader model uses is always enough for a tree that fits the tables (the walk never gives up) -/
theorem C06_fuel (t : Tree) (maxD maxF : Nat) (hd : t.numDirs ≤ maxD) (hf : t.numFiles ≤ maxF) :
    needIter t ≤ 2 * maxD + maxF + 3 := needIter_le t maxD maxF hd hf

/-- bare level 3 at any start offset: listing structure, and data offset `0 + filedata_offset` relative to `start` -/
theorem C06_parse_bare (lower : Str → Str) (ci : Bool) (file : Bytes) (start : Nat) (t : Tree)
    (hmagic : (slice (slice file start 0x5C) 0 4 == [0x49, 0x56, 0x46, 0x43]) = false)
    (hok : headerOK (slice (slice file start 0x5C) 0 0x28))
    (hrep : repDir (envOf lower ci file start 0 (slice (slice file start 0x5C) 0 0x28))
              (slice (envOf lower ci file start 0 (slice (slice file start 0x5C) 0 0x28)).dm 0 0x18) t = true)
    (hd : t.numDirs ≤ (envOf lower ci file start 0 (slice (slice file start 0x5C) 0 0x28)).maxDirs)
    (hf : t.numFiles ≤ (envOf lower ci file start 0 (slice (slice file start 0x5C) 0 0x28)).maxFiles)
    (hdist : Distinct (envOf lower ci file start 0 (slice (slice file start 0x5C) 0 0x28)) t) :
    parse lower ci file start =
      .ok ⟨.dir [0x52, 0x4F, 0x4F, 0x54] (shapeContents (envOf lower ci file start 0 (slice (slice file start 0x5C) 0 0x28)) t),
           0, 0 + u32 (slice (slice file start 0x5C) 0 0x28) 36⟩ :=
  parse_bare lower ci file start t hmagic hok hrep hd hf hdist

/-- IVFC-wrapped: level 3 starts at `roundup(0x60 + master hash size, 2^exponent)` (exponent ≤ 0x3F, magic number 0x10000);
    listing structure, and data offset relative to `start` = that offset + filedata_offset -/
theorem C06_parse_ivfc (lower : Str → Str) (ci : Bool) (file : Bytes) (start : Nat) (t : Tree)
    (hmagic : (slice (slice file start 0x5C) 0 4 == [0x49, 0x56, 0x46, 0x43]) = true)
    (hnum : u32 (slice file start 0x5C) 4 = 0x10000) (hbs : ¬ u32 (slice file start 0x5C) 0x4C > 0x3F)
    (off : Nat) (hoff : off = roundupNat (0x60 + u32 (slice file start 0x5C) 8) (2 ^ u32 (slice file start 0x5C) 0x4C))
    (hok : headerOK (slice file (start + off) 0x28))
    (hrep : repDir (envOf lower ci file start off (slice file (start + off) 0x28))
              (slice (envOf lower ci file start off (slice file (start + off) 0x28)).dm 0 0x18) t = true)
    (hd : t.numDirs ≤ (envOf lower ci file start off (slice file (start + off) 0x28)).maxDirs)
    (hf : t.numFiles ≤ (envOf lower ci file start off (slice file (start + off) 0x28)).maxFiles)
    (hdist : Distinct (envOf lower ci file start off (slice file (start + off) 0x28)) t) :
    parse lower ci file start =
      .ok ⟨.dir [0x52, 0x4F, 0x4F, 0x54] (shapeContents (envOf lower ci file start off (slice file (start + off) 0x28)) t),
           off, off + u32 (slice file (start + off) 0x28) 36⟩ := by
  subst hoff
  exact parse_ivfc lower ci file start t hmagic hnum hbs hok hrep hd hf hdist

/-- opening a file gives the window `[start + data_offset + entry offset, + size)`: exactly its bytes, nothing beyond (C09) -/
theorem C06_file_window (p : Parsed) (start : Nat) (n : Str) (off size : Nat) :
    fileWindow p start (.file n off size) = .ok (start + p.dataOffset + off, size) := rfl

theorem C06_file_bytes (buf : Bytes) (lo size : Nat) (h : lo + size ≤ buf.length) :
    Sub.invSub (fun _ => True) PyFile.abs ⟨⟨buf, 0⟩, lo, size, 0⟩ ∧
    (Sub.absSub PyFile.abs ⟨⟨buf, 0⟩, lo, size, 0⟩).content = slice buf lo size :=
  ⟨⟨trivial, by simpa [PyFile.abs] using h⟩, rfl⟩

/-- opening a directory raises the is-a-directory error -/
theorem C06_isdir (p : Parsed) (start : Nat) (n : Str) (cs : List (Str × PNode)) :
    fileWindow p start (.dir n cs) = .error (.other "RomFSIsADirectoryError") := rfl

/-- case-insensitive mode: every case variant (same lower-casing) resolves to the same entry -/
theorem C06_case_insensitive (lower : Str → Str) (root : PNode) (p q : Str) (hp : p ≠ [0x2E]) (hq : q ≠ [0x2E])
    (h : lower p = lower q) : getRawInfo lower true root p = getRawInfo lower true root q :=
  getRawInfo_ci lower root p q hp hq h

/-- case-sensitive mode: lookups do not depend on `lower` at all — components are matched by exact spelling … -/
theorem C06_case_sensitive (l1 l2 : Str → Str) (root : PNode) (p : Str) :
    getRawInfo l1 false root p = getRawInfo l2 false root p := getRawInfo_cs l1 l2 root p

/-- … and a component that names nothing raises the not-found error -/
theorem C06_missing (n : Str) (cs : List (Str × PNode)) (part : Str) (rest : List Str) (hne : part ≠ [])
    (h : ∀ kv ∈ cs, kv.1 ≠ part) : walkParts (.dir n cs) (part :: rest) = .error (.other "RomFSFileNotFoundError") :=
  walkParts_missing n cs part rest hne h

end Pyctr.C06
