/-
  C19 — no input makes a reader hang or consume unbounded resources.

  What is PROVED here are the loops whose trip count is driven by on-disk values, on the models that the other checks tie to
  pyctr: the RomFS metadata walk, the backward LZSS decoder, the seed-database loader, the chunk planner of the
  fully-decrypted NCCH view.  Every model function is total (Lean's
  termination checker); where a fuel parameter stands in for a `while` loop, a theorem shows the fuel is never what stops it.
  For the remaining readers the bound is measured (line-event budget), see DESIGN.md §C19.
-/
import Proofs.CostProofs
import Proofs.CodecProofs
import Proofs.FullReadProofs
import Proofs.SizeBounds
namespace Pyctr.C19
open Pyctr

/-- RomFS: the walk visits at most `dirmeta.size / 0x18` directory entries and `filemeta.size / 0x20` file entries; sibling /
    child links that revisit an entry (cycles, self-references) hit the counter and come back as `RomFSEntryError` -/
theorem C19_romfs_walk (e : Romfs.Env) (fuel : Nat) :
    (∀ raw c out c', Romfs.Bnd e c → Romfs.iterDir e fuel raw c = .ok (out, c') → Romfs.Bnd e c') ∧
    (∀ off acc c out c', Romfs.Bnd e c → Romfs.dirLoop e fuel off acc c = .ok (out, c') → Romfs.Bnd e c') ∧
    (∀ off acc c out c', Romfs.Bnd e c → Romfs.fileLoop e fuel off acc c = .ok (out, c') → Romfs.Bnd e c') :=
  Romfs.walk_bounded e fuel

/-- ... and those caps are at most `len(file) / 0x18` and `len(file) / 0x20`: they are counted from the table bytes actually
    read, so a header that claims a 4 GiB table in a 300-byte file does not buy 134 million loop iterations -/
theorem C19_romfs_caps (lower : Romfs.Str → Romfs.Str) (ci : Bool) (file : Bytes) (base dmo dms fmo fms : Nat) :
    (Romfs.mkEnv lower ci file base dmo dms fmo fms).maxDirs * 0x18 ≤ file.length ∧
    (Romfs.mkEnv lower ci file base dmo dms fmo fms).maxFiles * 0x20 ≤ file.length :=
  Romfs.mkEnv_caps lower ci file base dmo dms fmo fms

/-- LZSS: the decoder's `while` loop runs at most `ptr_in - comp_start` (≤ the input length) times -/
theorem C19_lzss_terminates (cs de : Nat) (f : Nat) (s : Lzss.St) (h : s.pin - cs ≤ f) (k : Nat) :
    Lzss.outer cs de (f + k) s = Lzss.outer cs de f s := Lzss.outer_fuel cs de f s h k

/-- the input pointer only moves backwards inside a control byte's eight items -/
theorem C19_lzss_items (cs de ctrl i : Nat) (s s' : Lzss.St) (h : Lzss.items cs de ctrl i s = .ok s') : s'.pin ≤ s.pin :=
  Lzss.items_pin cs de ctrl i s s' h

/-- seed database: the loader never accepts more entries than the file holds, whatever the count field says -/
theorem C19_seeddb (f : Bytes) (es : List (Nat × Bytes)) (h : SeedDb.loadEntries f = some es) :
    0x20 * es.length + 0x10 ≤ max f.length 0x10 := SeedDb.load_bounded f es h

/-- NCCH, fully-decrypted view: a read of ANY (offset, size) is the assembly of a plan of `fullChunks` chunks, and that number
    times 0x200 is at most the length of the file plus one chunk - whatever content size the header claims (a 16-TiB claim in
    a 1-KiB file used to buy 2^35 planning iterations: fixed in da3d81a); the plan has at most that many pieces -/
theorem C19_ncch_full_read (E : Bytes → Bytes → Bytes) (s : Ncch.State) (file : Bytes) (start offset : Nat) (size : Int)
    (r : Ncch.Region) (hr : s.region? Ncch.secFull = some r) :
    (∃ before cutEnd lastKey,
      Ncch.fullRead E s file start offset size =
        if Ncch.fullChunks r.size file.length start offset size = 0 then .ok []
        else Ncch.assemble (Ncch.getData E s file start) before cutEnd lastKey
               (Ncch.plan s (offset - offset % 0x200) (Ncch.fullChunks r.size file.length start offset size))) ∧
    Ncch.fullChunks r.size file.length start offset size * 0x200 ≤ file.length + 0x1FF ∧
    (Ncch.plan s (offset - offset % 0x200) (Ncch.fullChunks r.size file.length start offset size)).length
      ≤ Ncch.fullChunks r.size file.length start offset size :=
  ⟨Ncch.fullRead_plan E s file start offset size r hr, Ncch.fullChunks_bound _ _ _ _ _, Ncch.plan_length s _ _⟩

/-- **what a parser builds is bounded**: a loaded TMD holds fewer than 2^16 content records and at most 64 info records, a
    cartridge header at most 8 partitions, an ExeFS header at most 10 entries, and a CIA content index of `n` bytes marks at
    most `8 n` contents - so a full traversal of what was parsed is bounded by a constant of the format, whatever the counts
    and sizes inside the input claim -/
theorem C19_parsed_sizes :
    (∀ (H : Bytes → Bytes) (v : Bool) (b : Bytes) (t : Tmd.T), Tmd.load H v b = .ok t →
      t.chunkRecords.length < 65536 ∧ t.infoRecords.length ≤ 64) ∧
    (∀ h : Bytes, (Cci.partsOf h).length ≤ 8) ∧
    (∀ (hdr : Bytes) (es : List Exefs.Entry), Exefs.parse hdr = .ok es → es.length ≤ 10) ∧
    (∀ index : Bytes, (Cia.activeContents index).length ≤ 8 * index.length) :=
  ⟨Tmd.load_sizes, Cci.partsOf_length, Exefs.parse_length, Cia.activeContents_bound⟩

end Pyctr.C19
