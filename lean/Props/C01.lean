/-
  C01 — random-access AES-CTR reads equal whole-stream decryption (3DS and DSi mode).
  `E` is AES-128 encryption under the keyslot's normal key (a parameter: nothing about AES is used).
-/
import Proofs.CtrRefines
import Proofs.TwlRefines
import Proofs.SubRefines
import Proofs.PyFileRefines
import Proofs.Run
namespace Pyctr.C01
open Pyctr
variable {σ : Type} {F : FileOps σ} {inv : σ → Prop} {abs : σ → AFile} (E : Bytes → Bytes)

/-- 3DS flavour: over any readable inner file, `CTRFileIO` reads/seeks/tells exactly like an ordinary file whose
    content is the whole-stream decryption `plain3ds E counter (inner content)`; the cached-cipher coherence
    invariant (`invCtr`) is preserved by every operation. -/
theorem C01_ctr_refines (hF : IsReadable F inv abs) :
    IsReadable (CtrIO.ops F E) (CtrIO.invCtr inv abs) (CtrIO.absCtr E abs) := CtrIO.ctr_isReadable E hF

theorem C01_ctr_content (s : CtrIO σ) :
    (CtrIO.absCtr E abs s).content = plain3ds E s.counter (abs s.reader).content := by
  rw [plain3ds_eq]; rfl

/-- DSi flavour (`TWLCTRFileIO`): the per-16-byte-block reversal is invisible at every offset and length. -/
theorem C01_twl_refines (hF : IsReadable F inv abs) :
    IsReadable (TwlIO.ops F E) (TwlIO.invTwl inv) (TwlIO.absTwl E abs) := TwlIO.twl_isReadable E hF

theorem C01_twl_content (s : TwlIO σ) :
    (TwlIO.absTwl E abs s).content = plainTwl E s.counter (abs s.reader).content := by
  rw [plainTwl_eq]; rfl

/-- the block-reversal algebra behind the DSi flavour: en/decrypting a block-aligned buffer through
    `_TWLCryptoWrapper` is XOR with the byte-reversed keystream blocks -/
theorem C01_twl_blockrev (c0 : Nat) (dr : Bool) (P : Bytes) (h : P.length % 16 = 0) :
    twlApply E ⟨c0, 0, none⟩ dr P = .ok (xorWith (twlKs E c0) 0 P, ⟨c0, 0 + P.length, some dr⟩) :=
  twlApply_full E c0 dr P h

/-- every history of seeks/reads/tells, any order (back-to-back reads that reuse the cached cipher, reads after a
    seek that dropped it): outputs and final position equal those of the ordinary file with the plaintext content -/
theorem C01_history_ctr (hF : IsReadable F inv abs) (ops : List Op) (hro : ∀ op ∈ ops, op.isWrite = false)
    (s : CtrIO σ) (h : CtrIO.invCtr inv abs s) :
    ((CtrIO.ops F E).run s ops).1 = (AFile.ops.run (CtrIO.absCtr E abs s) ops).1 :=
  (isReadable_run (C01_ctr_refines E hF) ops hro s h).1

theorem C01_history_twl (hF : IsReadable F inv abs) (ops : List Op) (hro : ∀ op ∈ ops, op.isWrite = false)
    (s : TwlIO σ) (h : TwlIO.invTwl inv s) :
    ((TwlIO.ops F E).run s ops).1 = (AFile.ops.run (TwlIO.absTwl E abs s) ops).1 :=
  (isReadable_run (C01_twl_refines E hF) ops hro s h).1

/-- the two bases the property names: a plain file … -/
theorem C01_plain_file : IsReadable (CtrIO.ops PyFile.ops E) (CtrIO.invCtr (fun _ => True) PyFile.abs)
    (CtrIO.absCtr E PyFile.abs) := C01_ctr_refines E pyfile_isFile.toIsReadable

/-- … and a windowed sub-file (both flavours). -/
theorem C01_windowed_ctr :
    IsReadable (CtrIO.ops (Sub.ops PyFile.ops) E)
      (CtrIO.invCtr (Sub.invSub (fun _ => True) PyFile.abs) (Sub.absSub PyFile.abs))
      (CtrIO.absCtr E (Sub.absSub PyFile.abs)) :=
  C01_ctr_refines E (Sub.sub_isReadable pyfile_isFile.toIsReadable)

theorem C01_windowed_twl :
    IsReadable (TwlIO.ops (Sub.ops PyFile.ops) E)
      (TwlIO.invTwl (Sub.invSub (fun _ => True) PyFile.abs))
      (TwlIO.absTwl E (Sub.absSub PyFile.abs)) :=
  C01_twl_refines E (Sub.sub_isReadable pyfile_isFile.toIsReadable)

/-- a freshly created wrapper satisfies the invariant (no cached cipher) -/
theorem C01_init (r : σ) (ctr : Nat) (h : inv r) : CtrIO.invCtr inv abs ⟨r, ctr, none, false⟩ :=
  ⟨h, fun _ hc => by cases hc⟩

/-- non-vacuity: a concrete stream, two back-to-back unaligned reads and a read after a seek, with a toy block
    function, agree with the whole-stream decryption -/
example :
    let E : Bytes → Bytes := fun b => b.map (· + 1)
    let ct : Bytes := (List.range 40).map UInt8.ofNat
    ((CtrIO.ops PyFile.ops E).run ⟨⟨ct, 0⟩, 5, none, false⟩ [.read 3, .read 20, .seek 17 0, .read 7]).1 =
      [.bytes (slice (plain3ds E 5 ct) 0 3), .bytes (slice (plain3ds E 5 ct) 3 20), .nat 17,
       .bytes (slice (plain3ds E 5 ct) 17 7)] := by decide

end Pyctr.C01
