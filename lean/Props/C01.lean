namespace Pyctr.C01
end Pyctr.C01
