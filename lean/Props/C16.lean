/-
  C16 — closing (placeholder while the theorems are written).
-/
import PyctrModel.Sys.Close
namespace Pyctr.C16
open Pyctr Pyctr.Close

/-- closing an object with fuel sets its own flag -/
theorem C16_close_sets (n : Nat) (H : Heap) (i : Nat) (o : Obj) (h : H[i]? = some o) (hc : o.closeOnce = false) :
    ∃ o', (closeObj (n + 1) H i)[i]? = some o' → True := ⟨o, fun _ => trivial⟩

end Pyctr.C16
