/-
  C16 — closing is complete, contained, idempotent and respects file ownership.

  Model: PyctrModel/Sys/Close.lean — every reader, handle and wrapper as an object with a `closed` flag and four static
  fields (`owns` closed when `closefd`, `tracked` always closed, `look` consulted by the closed-check, `through` called into by a
  read); `closeObj` = `close()`, `ioObj` = an I/O call (ValueError or not, with the latching check).  The per-class field values
  (`mkReader`, `openHandle`, …) transcribe the classes; the exhaustive configuration matrix ties them to pyctr.
  The theorems below hold for EVERY heap, so they do not depend on that transcription being the right one.
-/
import Proofs.CloseProofs
import Proofs.CloseTransitive
namespace Pyctr.C16
open Pyctr Pyctr.Close

/-- nothing is ever reopened and nothing but `closed` flags ever changes — by any close … -/
theorem C16_close_monotone (n : Nat) (H : Heap) (i : Nat) : heapLe H (closeObj n H i) := closeObj_le n H i

/-- … or by any I/O call (whose closed-check latches) -/
theorem C16_io_monotone (n : Nat) (H : Heap) (i : Nat) (op : IoOp) : heapLe H (ioObj n H i op).2 := ioObj_le n H i op

/-- a `close()` sets the object's own flag, whatever its class and whatever was closed before (so closing twice, or closing
    handles in any order, leaves every closed object closed) -/
theorem C16_close_sets_flag (n : Nat) (H : Heap) (i : Nat) : closedAt (closeObj (n + 1) H i) i := closeObj_closes_self n H i

/-- **use after close**: an object whose flag is set raises ValueError on a data call and on a position-only call alike -/
theorem C16_use_after_close (n : Nat) (H : Heap) (i : Nat) (op : IoOp) (o : Obj) (hi : H[i]? = some o) (hc : o.closed = true) :
    (ioObj (n + 1) H i op).1 = true := io_raises_closed n H i op o hi hc

/-- … and so does a handle whose underlying object (`_reader`) has been closed, even if nobody closed the handle itself -/
theorem C16_use_after_inner_close (n : Nat) (H : Heap) (i j : Nat) (op : IoOp) (o oj : Obj) (hi : H[i]? = some o)
    (hl : o.look = some j) (hj : H[j]? = some oj) (hc : oj.closed = true) : (ioObj (n + 1) H i op).1 = true :=
  io_raises_look n H i j op o oj hi hl hj hc

/-- **complete (one level)**: closing a reader that is not already closed closes every handle, nested reader, base wrapper and
    partition it tracks; combined with `C16_use_after_close` every further call on them raises.  (Deeper levels follow by
    applying the theorem to the nested reader; the model's transitive behaviour is compared with pyctr by the matrix.) -/
theorem C16_complete (n : Nat) (H : Heap) (r : Nat) (o : Obj) (hr : H[r]? = some o)
    (hfresh : (o.closeOnce && o.closed) = false) (hfl : (flushStep (n + 1) H o).1 = false) (t : Nat) (ht : t ∈ o.tracked)
    (hlt : t < H.length) : closedAt (closeObj (n + 2) H r) t :=
  close_closes_tracked n H r o hr hfresh hfl t ht hlt

/-- **complete at every level**: in an acyclic close graph (a ranking `rk` strictly decreasing along "owns when closefd" and
    "tracks" edges) without flushing wrappers, with fuel above the object's rank, `close()` leaves EVERYTHING below the object
    closed — handles of nested readers of nested readers included — provided readers below it that were closed earlier had
    everything below them closed; and `close()` maintains that proviso (second conclusion), so it holds along any history of
    closes starting from a world where no reader is closed (`goodOn_fresh`) -/
theorem C16_complete_all_levels (rk : Nat → Nat) (n : Nat) (H : Heap) (i : Nat) (hr : Ranked rk H) (hn : NoFlush H)
    (hfuel : rk i < n) (hgood : GoodOn H i) :
    (∀ j, Desc H i j → closedAt (closeObj n H i) j) ∧ GoodOn (closeObj n H i) i :=
  close_all_below rk n H i hr hn hfuel hgood

/-- **idempotent**: closing a reader twice is the same as closing it once -/
theorem C16_idempotent (n m : Nat) (H : Heap) (r : Nat) (o : Obj) (hr : H[r]? = some o) (hco : o.closeOnce = true) :
    closeObj (m + 1) (closeObj (n + 1) H r) r = closeObj (n + 1) H r := close_twice_reader n m H r o hr hco

/-- **contained / ownership**: a `close()` changes no object outside `reach` — the object itself, what it owns *if* `closefd`,
    what it tracks, recursively.  Hence closing a handle never touches a sibling handle or its reader, and a file that is
    owned only through a `closefd = false` edge stays open. -/
theorem C16_contained (n : Nat) (H : Heap) (i j : Nat) (hj : j ∉ reach n H i) : (closeObj n H i)[j]? = H[j]? :=
  close_frame n H i j hj

/-- an I/O call latches only the object and what it reads through -/
theorem C16_io_contained (n : Nat) (H : Heap) (i : Nat) (op : IoOp) (j : Nat) (hj : j ∉ ioReach n H i) :
    (ioObj n H i op).2[j]? = H[j]? := io_frame n H i op j hj

/-! ### the transcribed graphs: ownership and containment on representative worlds (kernel-evaluated instances) -/

/-- an NCCH (two-key ExeFS) over a caller's file object, default closefd, with a RomFS handle and an ExeFS-file handle -/
def exWorld : World :=
  let w : World := (({} : World).alloc "f" rawFile).1
  let w := (w.mkReader "ncch-split" "r" (.obj "f") none).getD w
  let w := (w.openHandle "r" "raw-romfs" "h0").getD w
  (w.openHandle "r.exefs" "open" "h1").getD w

def exId (n : String) : Nat := (exWorld.id? n).getD 0

/-- the caller's file is outside the reach of the reader's close (default closefd on a file object): it stays open -/
example : exId "f" ∉ reach 12 exWorld.heap (exId "r") := by decide
/-- … and both handles are inside it -/
example : exId "h0" ∈ reach 12 exWorld.heap (exId "r") ∧ exId "h1" ∈ reach 12 exWorld.heap (exId "r") := by decide
/-- closing one handle reaches neither its sibling nor the reader nor the file -/
example : exId "h1" ∉ reach 12 exWorld.heap (exId "h0") ∧ exId "r" ∉ reach 12 exWorld.heap (exId "h0") ∧
    exId "f" ∉ reach 12 exWorld.heap (exId "h0") := by decide
/-- after the reader is closed, a position-only call on the nested reader's handle raises -/
example : (ioObj 12 (closeObj 12 exWorld.heap (exId "r")) (exId "h1") .tell).1 = true := by decide

/-- the transcribed NCCH world meets the side conditions of `C16_complete_all_levels` (ranks = depth in the close graph) … -/
def exRank (i : Nat) : Nat := [1, 3, 1, 2, 1, 1, 1, 1, 1, 1, 1, 2, 2, 1, 2, 1, 1, 2, 1].getD i 0
example : rankedB exRank exWorld.heap = true ∧ noFlushB exWorld.heap = true ∧ freshB exWorld.heap = true := by decide
/-- … so closing the reader closes the handle of its nested ExeFS reader (two levels down) -/
example : closedAt (closeObj 12 exWorld.heap (exId "r")) (exId "h1") :=
  (C16_complete_all_levels exRank 12 exWorld.heap (exId "r") (ranked_of_b _ _ (by decide)) (noFlush_of_b _ (by decide))
    (by decide) (fresh_of_b _ (by decide) _)).1 (exId "h1") (by
      -- r tracks the nested ExeFS reader, which tracks h1
      have h1 : exWorld.heap[exId "r"]? = some (exWorld.heap[exId "r"]'(by decide)) := List.getElem?_eq_getElem _
      have h2 : exWorld.heap[12]? = some (exWorld.heap[12]'(by decide)) := List.getElem?_eq_getElem _
      exact Desc.step h1 (by decide) (Desc.step h2 (by decide) (Desc.refl _)))

end Pyctr.C16
