/-
  C12 — CTR-wrapper writes keep ciphertext file and plaintext view consistent.
-/
import Proofs.CtrRefines
import Proofs.TwlRefines
import Proofs.SubRefines
import Proofs.PyFileRefines
import Proofs.Run
import Proofs.CtrSeekForgets
namespace Pyctr.C12
open Pyctr
variable {σ : Type} {F : FileOps σ} {inv : σ → Prop} {abs : σ → AFile} (E : Bytes → Bytes)

/-- coupling, 3DS flavour: the abstraction `absCtr` *is* "underlying file = encryption of the logical plaintext"
    (CTR is an involution), and every read/write/seek/tell — in any interleaving, read-then-write and
    write-then-read at the current position included — commutes with it and returns what the ordinary plaintext
    file returns.  Writes are covered whenever they do not start past the end of a growable base (see
    `C12_gap_witness` for why that hypothesis cannot be dropped on the present code). -/
theorem C12_coupling_partial (hF : IsFileW F inv abs) :
    IsFileW (CtrIO.ops F E) (CtrIO.invCtr inv abs) (CtrIO.absCtr E abs) := CtrIO.ctr_isFileW E hF

theorem C12_coupling_twl_partial (hF : IsFileW F inv abs) :
    IsFileW (TwlIO.ops F E) (TwlIO.invTwl inv) (TwlIO.absTwl E abs) := TwlIO.twl_isFileW E hF

/-- full strength over a window (a write truncated by the window leaves the coupling intact; no hypothesis) -/
theorem C12_windowed (hF : IsFileW F inv abs) (hfix : ∀ r, inv r → (abs r).fixed = true) :
    IsFile (CtrIO.ops F E) (CtrIO.invCtr inv abs) (CtrIO.absCtr E abs) := CtrIO.ctr_isFile_of_fixed E hF hfix

theorem C12_windowed_twl (hF : IsFileW F inv abs) (hfix : ∀ r, inv r → (abs r).fixed = true) :
    IsFile (TwlIO.ops F E) (TwlIO.invTwl inv) (TwlIO.absTwl E abs) := TwlIO.twl_isFile_of_fixed E hF hfix

theorem C12_windowed_pyfile :
    IsFile (CtrIO.ops (Sub.ops PyFile.ops) E)
      (CtrIO.invCtr (Sub.invSub (fun _ => True) PyFile.abs) (Sub.absSub PyFile.abs))
      (CtrIO.absCtr E (Sub.absSub PyFile.abs)) :=
  C12_windowed E (Sub.sub_isFile pyfile_isFile.toIsFileW).toIsFileW (fun _ _ => rfl)

/-- every history whose writes never start past the end of a growable file: same outputs as the plaintext file,
    hence no error the ordinary file would not raise -/
theorem C12_history_partial (hF : IsFileW F inv abs) (ops : List Op) (s : CtrIO σ) (h : CtrIO.invCtr inv abs s)
    (hg : AFile.noGapRun (CtrIO.absCtr E abs s) ops) :
    ((CtrIO.ops F E).run s ops).1 = (AFile.ops.run (CtrIO.absCtr E abs s) ops).1 ∧
    CtrIO.absCtr E abs ((CtrIO.ops F E).run s ops).2 = (AFile.ops.run (CtrIO.absCtr E abs s) ops).2 := by
  obtain ⟨a, b, _⟩ := isFileW_run (C12_coupling_partial E hF) ops s h hg; exact ⟨a, b⟩

/-- bytes never written keep their ciphertext: CTR transform commutes with overlay -/
theorem C12_unwritten_kept (ks : Nat → UInt8) (p : Nat) (c w : Bytes) (hp : p ≤ c.length) :
    xorWith ks 0 (overlay c p (xorWith ks p w)) = overlay (xorWith ks 0 c) p w := xorWith_overlay ks p c w hp

/-- the full statement fails on the present code (known finding `ctrio.write-past-eof-gap`): after seeking past
    the end of a growable file, a write leaves the zero-filled gap unencrypted, so the file is no longer the
    encryption of the logical plaintext. -/
theorem C12_gap_witness :
    let E : Bytes → Bytes := fun _ => List.replicate 16 1
    let s0 : CtrIO PyFile := ⟨⟨[0x10, 0x11], 0⟩, 0, none, false⟩
    let s1 := ((CtrIO.ops PyFile.ops E).run s0 [.seek 4 0, .write [0xAA]]).2
    (CtrIO.absCtr E PyFile.abs s1).content ≠
      (AFile.ops.run (CtrIO.absCtr E PyFile.abs s0) [.seek 4 0, .write [0xAA]]).2.content := by decide


/-- **sharing the underlying file object is safe under "seek before the next call"**: after the wrapper's own `seek` its
    state is a function of the inner file's state and the counter alone - whatever cipher object it had cached, in whichever
    direction, whoever moved the inner file in between (its owner, a second wrapper on it) - and a state without a cached
    cipher reads and writes the same whatever its direction flag says.  (`C01`: the same for reads.) -/
theorem C12_seek_forgets (s s' : CtrIO σ) (hr : s.reader = s'.reader) (hc : s.counter = s'.counter) (off whence : Int) :
    ((CtrIO.seek F s off whence).map (fun x => (x.1, x.2.reader, x.2.counter, x.2.cipher)) =
     (CtrIO.seek F s' off whence).map (fun x => (x.1, x.2.reader, x.2.counter, x.2.cipher))) ∧
    (∀ (t : CtrIO σ), t.cipher = none → ∀ (b : Bool) (n : Int) (w : Bytes),
      CtrIO.read F E { t with cipherDec := b } n = CtrIO.read F E t n ∧
      CtrIO.write F E { t with cipherDec := b } w = CtrIO.write F E t w) :=
  ⟨CtrIO.seek_forgets F s s' hr hc off whence,
   fun t ht b n w => ⟨CtrIO.read_no_cipher F E t ht b n, CtrIO.write_no_cipher F E t ht b w⟩⟩

end Pyctr.C12
