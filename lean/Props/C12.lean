namespace Pyctr.C12
end Pyctr.C12
