/-
  C04 — the fully-decrypted NCCH view is one consistent, key-free image of the container.
-/
import Proofs.NcchViews
import Proofs.FullReadProofs
namespace Pyctr.C04
open Pyctr Pyctr.Ncch

/-- a chunk that lies in no section is classified as raw pass-through -/
theorem C04_classify_raw (s : State) (chunk : Nat) (h : ∀ sec, inRegion s chunk sec = none) :
    classify s chunk = (secRaw, 0) := by
  simp only [classify, h]

/-- a chunk inside a section is attributed to it, with the section start as base (the classifier tries RomFS,
    ExeFS, header, extended header, logo, plain in that order; for non-overlapping sections at most one matches) -/
theorem C04_classify_romfs (s : State) (chunk : Nat) (r : Region) (h : inRegion s chunk secRomFS = some r) :
    classify s chunk = (secRomFS, r.offset) := by
  simp only [classify, h]

theorem C04_classify_exefs (s : State) (chunk : Nat) (r : Region) (h0 : inRegion s chunk secRomFS = none)
    (h : inRegion s chunk secExeFS = some r) : classify s chunk = (secExeFS, r.offset) := by
  simp only [classify, h0, h]

/-- membership of a chunk in a region is exactly the half-open interval test -/
theorem C04_inRegion (s : State) (chunk sec : Nat) (r : Region) (hr : s.region? sec = some r) :
    inRegion s chunk sec = if r.offset ≤ chunk ∧ chunk < r.offset + r.size then some r else none := by
  simp only [inRegion, hr, Region.stop]; rfl

/-- keyless re-parse: with the no-crypto flag set (what the fully-decrypted header carries) no key is needed -/
theorem C04_keyless (eng : Engine) (f : Flags) (extraSlot : Nat) (keyY : Bytes) (sy : Option Bytes)
    (h : f.noCrypto = true) : setupExtraKey eng f false extraSlot keyY sy = .ok eng := by
  simp [setupExtraKey, h]

/-- the header rewrite of the fully-decrypted view touches exactly bytes 0x18B and 0x18F -/
theorem C04_header_rewrite (d : Bytes) (i : Nat) (hi : i ≠ 0x18B ∧ i ≠ 0x18F) :
    (setByte (setByte d 0x18B 0) 0x18F 4)[i]? = d[i]? := by
  unfold setByte
  split <;> split <;> simp [List.getElem?_set, hi.1.symm, hi.2.symm]

/-- the planning loop: for non-overlapping sections (`regionsApart`, decidable, evaluated on every generated image) the planned
    pieces stand for exactly the 0x200-byte chunks of the aligned request, in order, each with its dict key and its offset inside
    that key's source; no key occurs twice; every piece is a positive whole number of chunks; the last piece belongs to the last
    chunk -/
theorem C04_plan (s : State) (h : regionsApart s = true) (a n : Nat) : PlanInv s a n (plan s a n) :=
  plan_spec s (contig_of_disjoint s (regionsDisjoint_of_apart s h)) a n

/-- **one consistent image.**  Let the sections not overlap, let `get_data` of each section (and of a raw chunk) return the slice
    of that section's plaintext `src` (what the C03 section theorems give), let every chunk of the content lie inside its source
    and the header be the chunk at offset 0.  Then EVERY read of the fully-decrypted view — any offset and length: inside a chunk,
    straddling section boundaries, covering gaps, reaching the end — is the corresponding slice of the one image `fullImage`
    (the chunk-wise concatenation of the section plaintexts and pass-through gaps, header crypto flags rewritten). -/
theorem C04_one_image (E : Bytes → Bytes → Bytes) (s : State) (file : Bytes) (start : Nat) (src : Nat → Bytes) (N : Nat)
    (g : ReadGeom E s file start src N) (r : Region) (hr : s.region? secFull = some r) (offset size : Nat) (hs : 0 < size)
    (h1 : offset + size ≤ r.size) (h2 : start + offset + size ≤ file.length) (h3 : offset + size ≤ 0x200 * N) :
    fullRead E s file start offset (size : Int) = .ok (slice (fullImage s src N) offset size) :=
  fullRead_spec E s file start src N g r hr offset size hs h1 h2 h3

/-- … and for EVERY offset and requested size (negative = "all", past the declared content, past the end of the file): the
    slice of the one image for the clamped byte count, nothing when that count is not positive -/
theorem C04_any_read (E : Bytes → Bytes → Bytes) (s : State) (file : Bytes) (start : Nat) (N : Nat)
    (hg : readGeomB E s file start N = true) (r : Region) (hr : s.region? secFull = some r) (hN : r.size ≤ 0x200 * N)
    (offset : Nat) (size : Int) :
    fullRead E s file start offset size =
      .ok (if clampFull r file start offset size ≤ 0 then []
           else slice (fullImage s (secSrc E s file start) N) offset (clampFull r file start offset size).toNat) :=
  fullRead_any E s file start (secSrc E s file start) N (readGeom_of_b E s file start N hg) r hr hN offset size

/-- hence a read at (offset, length) equals the slice of one whole-image read -/
theorem C04_consistent (E : Bytes → Bytes → Bytes) (s : State) (file : Bytes) (start : Nat) (src : Nat → Bytes) (N : Nat)
    (g : ReadGeom E s file start src N) (r : Region) (hr : s.region? secFull = some r) (hR : 0 < r.size)
    (hfile : start + r.size ≤ file.length) (hN : r.size ≤ 0x200 * N) (offset size : Nat) (hs : 0 < size)
    (h1 : offset + size ≤ r.size) :
    ∃ whole, fullRead E s file start 0 (r.size : Int) = .ok whole ∧ whole.length = r.size ∧
      fullRead E s file start offset (size : Int) = .ok (slice whole offset size) := by
  have hw := fullRead_spec E s file start src N g r hr 0 r.size hR (by omega) (by omega) (by omega)
  have hp := fullRead_spec E s file start src N g r hr offset size hs h1 (by omega) (by omega)
  refine ⟨_, hw, ?_, ?_⟩
  · rw [slice_length]
    have : (fullImage s src N).length = N * 0x200 := by
      unfold fullImage
      exact Save.flatMap_length_uniform _ 0x200 N (fun b hb => chunkContent_length E s file start src N g b hb)
    omega
  · rw [hp, slice_slice _ 0 r.size offset size h1, Nat.zero_add]

/-- the `get_data` hypothesis of `C04_one_image` holds outright for containers without encryption (NoCrypto flag, or opened
    with `assume_decrypted` — in particular for the re-parsed fully-decrypted image): the sources are the windows themselves -/
theorem C04_plain_sources (E : Bytes → Bytes → Bytes) (s : State) (file : Bytes) (start : Nat)
    (hplain : (s.assumeDecrypted || s.flags.noCrypto) = true) (sec off sz : Nat) (hsz : 0 < sz)
    (h : off + sz ≤ (plainSrc s file start sec).length) :
    getData E s file start sec off (sz : Int) = .ok (slice (plainSrc s file start sec) off sz) :=
  gd_plain E s file start hplain sec off sz hsz h

/-- `get_data` serves slices of the section plaintext `secSrc` for EVERY section — plain window, CTR-decrypted window, or the
    two-key ExeFS concatenation — so the `get_data` hypothesis of the one-image theorem is discharged, not assumed -/
theorem C04_section_sources (E : Bytes → Bytes → Bytes) (s : State) (file : Bytes) (start : Nat) (sec off sz : Nat) (hsz : 0 < sz)
    (h : off + sz ≤ (secSrc E s file start sec).length) :
    getData E s file start sec off (sz : Int) = .ok (slice (secSrc E s file start sec) off sz) :=
  gd_secSrc E s file start sec off sz hsz h

/-- **one consistent image, with every hypothesis decidable.**  `readGeomB` (regions apart, every chunk inside its section's
    plaintext, header = chunk 0) is evaluated by the driver on every generated image; when it holds, every in-range read of the
    fully-decrypted view is the slice of the one image built from the section plaintexts -/
theorem C04_one_image_checked (E : Bytes → Bytes → Bytes) (s : State) (file : Bytes) (start : Nat) (N : Nat)
    (hg : readGeomB E s file start N = true) (r : Region) (hr : s.region? secFull = some r) (offset size : Nat) (hs : 0 < size)
    (h1 : offset + size ≤ r.size) (h2 : start + offset + size ≤ file.length) (h3 : offset + size ≤ 0x200 * N) :
    fullRead E s file start offset (size : Int) = .ok (slice (fullImage s (secSrc E s file start) N) offset size) :=
  fullRead_spec E s file start (secSrc E s file start) N (readGeom_of_b E s file start N hg) r hr offset size hs h1 h2 h3

/-- the decidable geometry criterion implies the disjointness the theorems use -/
theorem C04_apart (s : State) (h : regionsApart s = true) : RegionsDisjoint s := regionsDisjoint_of_apart s h

end Pyctr.C04
