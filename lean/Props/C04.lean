/-
  C04 — the fully-decrypted NCCH view is one consistent, key-free image of the container.
-/
import Proofs.NcchViews
namespace Pyctr.C04
open Pyctr Pyctr.Ncch

/-- a chunk that lies in no section is classified as raw pass-through -/
theorem C04_classify_raw (s : State) (chunk : Nat) (h : ∀ sec, inRegion s chunk sec = none) :
    classify s chunk = (secRaw, 0) := by
  simp only [classify, h]

/-- a chunk inside a section is attributed to it, with the section start as base (the classifier tries RomFS,
    ExeFS, header, extended header, logo, plain in that order; for non-overlapping sections at most one matches) -/
theorem C04_classify_romfs (s : State) (chunk : Nat) (r : Region) (h : inRegion s chunk secRomFS = some r) :
    classify s chunk = (secRomFS, r.offset) := by
  simp only [classify, h]

theorem C04_classify_exefs (s : State) (chunk : Nat) (r : Region) (h0 : inRegion s chunk secRomFS = none)
    (h : inRegion s chunk secExeFS = some r) : classify s chunk = (secExeFS, r.offset) := by
  simp only [classify, h0, h]

/-- membership of a chunk in a region is exactly the half-open interval test -/
theorem C04_inRegion (s : State) (chunk sec : Nat) (r : Region) (hr : s.region? sec = some r) :
    inRegion s chunk sec = if r.offset ≤ chunk ∧ chunk < r.offset + r.size then some r else none := by
  simp only [inRegion, hr, Region.stop]; rfl

/-- keyless re-parse: with the no-crypto flag set (what the fully-decrypted header carries) no key is needed -/
theorem C04_keyless (eng : Engine) (f : Flags) (extraSlot : Nat) (keyY : Bytes) (sy : Option Bytes)
    (h : f.noCrypto = true) : setupExtraKey eng f false extraSlot keyY sy = .ok eng := by
  simp [setupExtraKey, h]

/-- the header rewrite of the fully-decrypted view touches exactly bytes 0x18B and 0x18F -/
theorem C04_header_rewrite (d : Bytes) (i : Nat) (hi : i ≠ 0x18B ∧ i ≠ 0x18F) :
    (setByte (setByte d 0x18B 0) 0x18F 4)[i]? = d[i]? := by
  unfold setByte
  split <;> split <;> simp [List.getElem?_set, hi.1.symm, hi.2.symm]

end Pyctr.C04
