/-
  C09 — every sub-file view is confined to its window and obeys basic file semantics.
  Only statements live here; proofs are in Proofs/.
-/
import Proofs.PyFileRefines
import Proofs.SubRefines
import Proofs.Run
import Proofs.MergerRefines
import Proofs.WrapperRefines
import Proofs.CtrRefines
import Proofs.TwlRefines
import Proofs.CbcRefines
import Proofs.SubShared
namespace Pyctr.C09
open Pyctr
universe u
variable {σ : Type} {F : FileOps σ} {inv : σ → Prop} {abs : σ → AFile}

/-- io.BytesIO (as modelled) is an ordinary growable file. -/
theorem C09_bytesio_refines : IsFile PyFile.ops (fun _ => True) PyFile.abs := pyfile_isFile

/-- SubsectionIO over anything that behaves like a file behaves like a fixed-size file whose content is the window —
    for all integer read sizes, seek offsets, whence values and write lengths. -/
theorem C09_sub_refines (hF : IsFileW F inv abs) :
    IsFile (Sub.ops F) (Sub.invSub inv abs) (Sub.absSub abs) := Sub.sub_isFile hF

/-- closure under stacking: a window on a window on a BytesIO -/
theorem C09_stack :
    IsFile (Sub.ops (Sub.ops PyFile.ops))
      (Sub.invSub (Sub.invSub (fun _ => True) PyFile.abs) (Sub.absSub PyFile.abs))
      (Sub.absSub (Sub.absSub PyFile.abs)) := Sub.sub_isFile (Sub.sub_isFile pyfile_isFile.toIsFileW).toIsFileW

/-- every history: outputs equal those of the ordinary file, for any operation list -/
theorem C09_history (hF : IsFile F inv abs) (ops : List Op) (s : σ) (h : inv s) :
    (F.run s ops).1 = (AFile.ops.run (abs s) ops).1 ∧
    abs (F.run s ops).2 = (AFile.ops.run (abs s) ops).2 ∧ inv (F.run s ops).2 := isFile_run hF ops s h

/-- frame: a read through a window changes no byte of the inner file outside the window … -/
theorem C09_read_frame (hF : IsReadable F inv abs) (s : Sub σ) (n : Int) (h : Sub.invSub inv abs s) :
    ∃ s', Sub.read F s n = .ok (((Sub.absSub abs s).read n).1, s') ∧ Sub.Frame abs s s' := by
  obtain ⟨s', a, _, _, f⟩ := Sub.read_refines hF s n h; exact ⟨s', a, f⟩

/-- … and neither does a write, whatever its length. -/
theorem C09_write_frame (hF : IsFileW F inv abs) (s : Sub σ) (w : Bytes) (h : Sub.invSub inv abs s) :
    ∃ s', Sub.write F s w = .ok (((Sub.absSub abs s).write w).1, s') ∧ Sub.Frame abs s s' := by
  obtain ⟨s', a, _, _, f⟩ := Sub.write_refines hF s w h; exact ⟨s', a, f⟩

/-- the property's words, on the specification: a read returns at most `n` bytes (all remaining for n < 0),
    taken from `pos`, never past the end, and the position advances by the number returned. -/
theorem C09_confined (f : AFile) (n : Int) :
    (f.read n).1 = slice f.content f.pos (f.read n).1.length ∧
    (0 ≤ n → ((f.read n).1.length : Int) ≤ n) ∧
    (n < 0 → (f.read n).1.length = f.content.length - f.pos) ∧
    f.pos + (f.read n).1.length ≤ max f.pos f.content.length ∧
    (f.read n).2.pos = f.pos + (f.read n).1.length := by
  have hl : (f.read n).1.length = min (f.readLen n) (f.content.length - f.pos) := by
    simp [AFile.read_fst]
  have hr : f.readLen n ≤ f.content.length - f.pos := by
    rw [AFile.readLen_eq]; split <;> omega
  have hl' : (f.read n).1.length = f.readLen n := by omega
  refine ⟨by rw [hl', AFile.read_fst], ?_, ?_, by omega, by rw [hl', AFile.read_snd_pos]⟩
  · intro hn; rw [hl', AFile.readLen_eq]; simp only [show ¬ n < 0 by omega, if_false]; omega
  · intro hn; rw [hl', AFile.readLen_eq]; simp [hn]

/-- a write to a window stores at most the bytes that fit and reports that number; the size never changes -/
theorem C09_write_fixed (f : AFile) (w : Bytes) (hf : f.fixed = true) :
    (f.write w).1 = min w.length (f.content.length - f.pos) ∧
    (f.write w).2.content.length = f.content.length := by
  have ht : f.writeTake w = w.take (f.content.length - f.pos) := by simp [AFile.writeTake, hf, AFile.size]
  have hl : (w.take (f.content.length - f.pos)).length = min w.length (f.content.length - f.pos) := by
    rw [List.length_take]; omega
  rw [AFile.write_def, ht]
  by_cases he : (w.take (f.content.length - f.pos)).isEmpty
  · simp only [he, if_true]
    have h0 : (w.take (f.content.length - f.pos)).length = 0 := by
      rw [List.isEmpty_iff] at he; rw [he]; rfl
    exact ⟨by omega, trivial⟩
  · simp only [he, Bool.false_eq_true, if_false]
    refine ⟨hl, ?_⟩
    have h0 : (w.take (f.content.length - f.pos)).length ≠ 0 := by
      intro h; apply he; rw [List.isEmpty_iff]; exact List.eq_nil_of_length_eq_zero h
    rw [overlay_length]; omega

/-- positions: absolute seeks inside the window land exactly; relative seeks move by the signed amount, floor 0 -/
theorem C09_positions (f : AFile) (off : Int) :
    (0 ≤ off → off ≤ f.content.length → f.seek off 0 = .ok (off.toNat, { f with pos := off.toNat })) ∧
    (f.seek off 1 = .ok (((f.pos : Int) + off).toNat, { f with pos := ((f.pos : Int) + off).toNat })) ∧
    (off < 0 → f.seek off 0 = .error .valueError) := by
  refine ⟨?_, by simp [AFile.seek], ?_⟩
  · intro h0 h1
    simp only [AFile.seek, AFile.size, show ¬ off < 0 by omega, if_true, if_false]
    cases f.clamp <;> simp
    omega
  · intro h; simp [AFile.seek, h]

/-- SplitFileMerger of readable parts reads like one ordinary (unclamped, read-only) file holding the parts in order -/
theorem C09_merger_refines (hF : IsReadable F inv abs) :
    IsReadOnly (Merger.ops F) (Merger.invM inv abs) (Merger.absM abs) := Merger.merger_isReadOnly hF

theorem C09_merger_init (parts : List (σ × Nat)) (hp : ∀ p ∈ parts, inv p.1 ∧ p.2 ≤ (abs p.1).content.length) :
    Merger.invM inv abs (Merger.create parts) := Merger.create_inv parts hp

/-- CloseWrapper is pure delegation -/
theorem C09_closewrapper_refines (hF : IsFile F inv abs) : IsFile (closeWrapperOps F) inv abs := closeWrapper_isFile hF

/-- reader open files (`_ReaderOpenFileBase` over an in-memory entry) -/
theorem C09_openfile_read (f : OpenFile) (n : Int) :
    OpenFile.ops.read f n = .ok (((OpenFile.absO f).read n).1, (f.read n).2) ∧
    OpenFile.absO (f.read n).2 = ((OpenFile.absO f).read n).2 := OpenFile.openFile_read f n

theorem C09_openfile_seek (f : OpenFile) (off wh : Int) (hwh : wh = 0 ∨ wh = 1 ∨ wh = 2) :
    (match OpenFile.seekOp f off wh with
     | .error e => (OpenFile.absO f).seek off wh = .error e
     | .ok (p, f') => (OpenFile.absO f).seek off wh = .ok (p, OpenFile.absO f')) := OpenFile.openFile_seek f off wh hwh

/-- crypto wrappers stacked on windows, and a window on a CTR wrapper on a window (the NAND shape):
    closure under stacking is just composition of the refinement theorems -/
theorem C09_stack_nand (E : Bytes → Bytes) :
    IsFile (Sub.ops (CtrIO.ops (Sub.ops PyFile.ops) E))
      (Sub.invSub (CtrIO.invCtr (Sub.invSub (fun _ => True) PyFile.abs) (Sub.absSub PyFile.abs))
        (CtrIO.absCtr E (Sub.absSub PyFile.abs)))
      (Sub.absSub (CtrIO.absCtr E (Sub.absSub PyFile.abs))) :=
  Sub.sub_isFile (CtrIO.ctr_isFile_of_fixed E (Sub.sub_isFile pyfile_isFile.toIsFileW).toIsFileW (fun _ _ => rfl)).toIsFileW

theorem C09_stack_merged (E : Bytes → Bytes) :
    IsReadOnly (Merger.ops (Sub.ops (CtrIO.ops (Sub.ops PyFile.ops) E)))
      (Merger.invM (Sub.invSub (CtrIO.invCtr (Sub.invSub (fun _ => True) PyFile.abs) (Sub.absSub PyFile.abs))
        (CtrIO.absCtr E (Sub.absSub PyFile.abs))) (Sub.absSub (CtrIO.absCtr E (Sub.absSub PyFile.abs))))
      (Merger.absM (Sub.absSub (CtrIO.absCtr E (Sub.absSub PyFile.abs)))) :=
  Merger.merger_isReadOnly (C09_stack_nand E).toIsReadable

/-- non-vacuity: a concrete window satisfies the hypotheses and yields the expected bytes -/
example : ((Sub.ops PyFile.ops).run ⟨⟨[0,1,2,3,4,5,6,7,8,9], 0⟩, 2, 4, 0⟩
      [.read 2, .seek (-1) 2, .read (-5), .write [0xaa, 0xbb]]).1
    = [.bytes [2,3], .nat 3, .bytes [5], .nat 0] := by decide


/-- **several views on one base object** (windows on one file used alternately, the owner of the file moving it in between):
    a read or write through a window returns the same value, leaves the window at the same position and the base with the
    same bytes whatever the position of the base was before the call.  Together with the refinement theorems this is why
    interleaving calls on different views by one thread cannot change what any of them returns -/
theorem C09_shared_base (buf : Bytes) (p p' off size pos : Nat) :
    (∀ n : Int, Sub.seen (Sub.read PyFile.ops ⟨⟨buf, p⟩, off, size, pos⟩ n) =
                Sub.seen (Sub.read PyFile.ops ⟨⟨buf, p'⟩, off, size, pos⟩ n)) ∧
    (∀ w : Bytes, Sub.seen (Sub.write PyFile.ops ⟨⟨buf, p⟩, off, size, pos⟩ w) =
                  Sub.seen (Sub.write PyFile.ops ⟨⟨buf, p'⟩, off, size, pos⟩ w)) :=
  sub_base_position_irrelevant buf p p' off size pos

end Pyctr.C09
