/-
  C05 — CIA archives: section geometry, title key, content selection, content decryption, key isolation.
-/
import Proofs.CiaProofs
import Proofs.CbcRefines
import Proofs.SubRefines
import Proofs.PyFileRefines
namespace Pyctr.C05
open Pyctr Pyctr.Cia

/-- content index: MSB-first bitmap, every set of indices below 0x10000 round-trips -/
theorem C05_bitmap (s : List Nat) (i : Nat) (hi : i < 0x10000) :
    i ∈ activeContents (encodeIndex s) ↔ i ∈ s := active_encode s i hi

/-- geometry: every section offset is the 64-aligned cumulative sum of the preceding sizes -/
theorem C05_align (a : Nat) : roundupNat a 64 % 64 = 0 ∧ a ≤ roundupNat a 64 ∧ roundupNat a 64 < a + 64 := roundup64 a

/-- title key: recovered from the ticket for every common key (given that AES decryption inverts encryption) -/
theorem C05_titlekey (E D : Bytes → Bytes → Bytes) (hED : ∀ k b, b.length = 16 → D k (E k b) = b) (ck iv tk : Bytes)
    (htk : tk.length = 16) (hiv : iv.length = 16) (hE : ∀ k b, b.length = 16 → (E k b).length = 16) :
    Engine.cbcDecBlocks D ck iv (E ck (xorBytes tk iv)) = tk := titlekey_recovered E D hED ck iv tk htk hiv hE

/-- the common key is the 3DS scrambler of KeyX[0x3D] and the indexed common KeyY (retail, and dev for index ≠ 0);
    dev with index 0 uses the fixed development key -/
theorem C05_commonkey_dev0 (D : Bytes → Bytes → Bytes) (e : Engine) (tk tid : Bytes) (hd : e.dev = true) :
    ((Engine.loadEncryptedTitlekey D e tk 0 tid).1).normal 0x3D = some Engine.devCommonKey0 := by
  simp only [Engine.loadEncryptedTitlekey, hd, and_self, if_true]
  have hk : (e.setNormal 0x3D Engine.devCommonKey0).cipherKey 0x3D = .ok Engine.devCommonKey0 := by
    simp [Engine.cipherKey, Engine.setNormal, Engine.upd]
  simp only [hk]
  split <;> (try split) <;> simp [Engine.setNormal, Engine.upd]

/-- **engine history**: the title key a ticket yields (and whether loading it raises) does not depend on anything the engine
    loaded before — other tickets with other common-key indices, the dev index-0 key installed directly as a normal key —
    only on KeyX of the common-key slot and the retail/dev flavour, and no ticket load changes those -/
theorem C05_titlekey_history (D : Bytes → Bytes → Bytes) (e : Engine) (prior : List Bytes) (tk tid : Bytes) (idx x : Nat)
    (hx : e.keyX 0x3D = some x) :
    let e' := prior.foldl (fun g t => (Engine.loadFromTicket D g t).1) e
    (Engine.loadEncryptedTitlekey D e' tk idx tid).2 = (Engine.loadEncryptedTitlekey D e tk idx tid).2 ∧
    ((Engine.loadEncryptedTitlekey D e' tk idx tid).2 = none →
      (Engine.loadEncryptedTitlekey D e' tk idx tid).1.normal 0x40 =
        (Engine.loadEncryptedTitlekey D e tk idx tid).1.normal 0x40) := by
  intro e'
  have hk := tickets_keep_x D prior e
  exact titlekey_history D e' e tk tid idx hk.2 x (by rw [hk.1]; exact hx) hx

/-- content selection: an active content the TMD lacks is detected -/
theorem C05_missing_detected (active tmdIdx : List Nat) :
    (active.any fun c => !(tmdIdx.filter fun x => active.contains x).contains c) = true ↔
      ∃ c ∈ active, c ∉ tmdIdx := by
  simp only [List.any_eq_true, Bool.not_eq_true', List.contains_eq_mem, decide_eq_false_iff_not, List.mem_filter,
    decide_eq_true_eq, not_and]
  constructor
  · rintro ⟨c, hc, h⟩; exact ⟨c, hc, fun hm => h hm hc⟩
  · rintro ⟨c, hc, h⟩; exact ⟨c, hc, fun hm => absurd hm h⟩

/-- content view: AES-CBC under the title key with IV = content index over the content window decrypts to the
    content bytes at every offset (C02 over C09) -/
theorem C05_content_view (D : Bytes → Bytes) :
    IsReadOnly (CbcIO.ops (Sub.ops PyFile.ops) D)
      (CbcIO.invCbc (Sub.invSub (fun _ => True) PyFile.abs) (Sub.absSub PyFile.abs))
      (CbcIO.absCbc D (Sub.absSub PyFile.abs)) :=
  CbcIO.cbc_isReadOnly D (Sub.sub_isReadable pyfile_isFile.toIsReadable)

/-- content regions: consecutive from the content offset, IV present exactly for encrypted records -/
theorem C05_content_region (r : Tmd.ChunkRecord) (cur : Nat) (acc : List Region)
    (hfresh : ∀ x ∈ acc, x.sec ≠ (r.cindex : Int)) :
    contentRegions [r] cur acc =
      acc ++ [⟨(r.cindex : Int), cur, r.size, if r.type.encrypted then some (toBE 2 r.cindex ++ zeros 14) else none⟩] := by
  have : acc.any (fun x => x.sec == (r.cindex : Int)) = false := by
    rw [List.any_eq_false]; intro x hx; simpa using hfresh x hx
  simp [contentRegions, setRegion, this]

/-- key isolation at the heap level: nested readers work on clones, so no operation on one reader's engine changes
    another's (C08_clone_indep) -/
theorem C05_isolation (heap : EngineHeap) (i j : Nat) (e' : Engine) (hij : i ≠ j) :
    (heap.set i e')[j]? = heap[j]? := by simp [List.getElem?_set, hij]

end Pyctr.C05
