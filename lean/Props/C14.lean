/-
  C14 — SD-card files are transparently en/decrypted with the path-derived counter.
  `lower` is str.lower and `H` SHA-256 (parameters); the data plane is the CTR wrapper of C01/C12.
-/
import Proofs.SdProofs
import Proofs.CtrRefines
import Proofs.PyFileRefines
import Proofs.SdRootKey
namespace Pyctr.C14
open Pyctr Pyctr.Sd

/-- the counter is derived from SHA-256 of the lower-cased, forward-slashed, NUL-terminated UTF-16LE path (halves
    XORed) — for every path outside the '/backup…' alias guard (the guarded paths are the known finding
    `sd.backup-alias`) -/
theorem C14_iv_partial (lower : Str → Str) (H : Bytes → Bytes) (p : Str)
    (h : (startsWith (fwd (lower p)) strBackup && (fwd (lower p)).length > 28) = false) :
    sdIv lower H p =
      (let hsh := H (encodeUtf16 (fwd (lower p)) ++ [0, 0]); readBE (slice hsh 0 16) ^^^ readBE (slice hsh 16 16)) :=
  sdIv_plain lower H p h

/-- case-insensitivity, for every input -/
theorem C14_case_insensitive (lower : Str → Str) (H : Bytes → Bytes) (p q : Str) (h : lower p = lower q) :
    sdIv lower H p = sdIv lower H q := sdIv_case lower H p q h

/-- inside the alias guard (the recorded finding `sd.backup-alias`): the counter is that of the rewritten path
    `/title/<p[12:20]>/<p[20:28]>/data<p[28:]>`, which is a different string - together with `C14_iv_partial` this is the complete
    behaviour of `sd_path_to_iv` -/
theorem C14_alias_exact (lower : Str → Str) (H : Bytes → Bytes) (p : Str)
    (h : (startsWith (fwd (lower p)) strBackup && (fwd (lower p)).length > 28) = true) :
    sdIv lower H p = ivOfNormalised H (strTitle ++ ((fwd (lower p)).drop 12).take 8 ++ [0x2F] ++ ((fwd (lower p)).drop 20).take 8 ++
      strData ++ (fwd (lower p)).drop 28) ∧ remap (fwd (lower p)) ≠ fwd (lower p) :=
  ⟨sdIv_alias lower H p h, remap_ne _ h⟩

/-- separator-insensitivity, for every input (given that lower-casing does not create or destroy separators) -/
theorem C14_separator_insensitive (lower : Str → Str) (H : Bytes → Bytes) (p : Str)
    (hl : ∀ s, fwd (lower (fwd s)) = fwd (lower s)) : sdIv lower H (fwd p) = sdIv lower H p := sdIv_sep lower H p hl

/-- ID0 = the four little-endian words of SHA-256(KeyY)[:16], each written big-endian (i.e. byte-reversed) -/
theorem C14_id0 (H : Bytes → Bytes) (key : Bytes) (hH : 16 ≤ (H key).length) :
    id0Of H key = (List.range 4).flatMap fun w => (slice (slice (H key) 0 16) (4 * w) 4).reverse := id0_words H key hH

/-- the three accepted movable.sed lengths, key at 0x110 for the long forms; everything else is rejected -/
theorem C14_lengths (data : Bytes) :
    (data.length = 0x10 → sdKeyOf data = .ok data) ∧
    (data.length = 0x120 ∨ data.length = 0x140 → sdKeyOf data = .ok (slice data 0x110 0x10)) ∧
    (data.length ≠ 0x10 → data.length ≠ 0x120 → data.length ≠ 0x140 →
      sdKeyOf data = .error (.other "BadMovableSedError")) := sdKey_lengths data

/-- reading returns the CTR decryption and writing stores the matching ciphertext: the SD file handle is the CTR
    wrapper (slot 0x34 ≥ 4 ⇒ 3DS flavour) over the backing file, so C12's coupling applies with the path counter -/
theorem C14_rw (E : Bytes → Bytes) :
    IsFileW (CtrIO.ops PyFile.ops E) (CtrIO.invCtr (fun _ => True) PyFile.abs) (CtrIO.absCtr E PyFile.abs) :=
  CtrIO.ctr_isFileW E pyfile_isFile.toIsFileW

/-- **which key a card is opened with** (`SDFilesystem.__init__`, `SDRoot.__init__`): a non-empty `sd_key` decides; otherwise the
    movable.sed file; otherwise the engine as it is (and it must hold a key) -/
theorem C14_root_key (H : Bytes → Bytes) (e : Engine) (held : Option Bytes) (sdKey : Bytes) (file : Option Bytes) :
    (sdKey ≠ [] → rootKey H e held sdKey file = setupSdKey H e sdKey) ∧
    (sdKey = [] → ∀ d, file = some d → rootKey H e held sdKey file = setupSdKey H e d) ∧
    (sdKey = [] → file = none → rootKey H e held sdKey file =
      match held with | some i => .ok (e, i) | none => .error (.other "MissingMovableSedError")) :=
  rootKey_choice H e held sdKey file

/-- `setup_sd_key` on any engine: afterwards the three SD slots hold the key of the data **whatever they held before**, the
    normal keys are the scrambler outputs, the ID0 is that of the key -/
theorem C14_setup_replaces (H : Bytes → Bytes) (e : Engine) (data key : Bytes) (hk : sdKeyOf data = .ok key) :
    ∃ e', setupSdKey H e data = .ok (e', id0Of H key) ∧
      (∀ s, sdSlot s → e'.keyY s = some (readBE key)) ∧ (∀ s, e'.keyX s = e.keyX s) ∧
      (∀ s, sdSlot s → ∀ x, e.keyX s = some x → e'.normal s = some (Pyctr.keygenSlot s x (readBE key))) :=
  setupSdKey_spec H e data key hk

/-- hence the card's keys do not depend on the engine's history: two engines with the same SD KeyX values (a fresh one, one that
    loaded another console's movable.sed, …), given the same `sd_key`, end with the same SD keys and the same ID0 -/
theorem C14_root_key_forgets (H : Bytes → Bytes) (e₁ e₂ : Engine) (h₁ h₂ f₁ f₂ : Option Bytes) (sdKey key : Bytes)
    (hne : sdKey ≠ []) (hk : sdKeyOf sdKey = .ok key) (hx : ∀ s, sdSlot s → e₁.keyX s = e₂.keyX s) :
    ∃ a b, rootKey H e₁ h₁ sdKey f₁ = .ok (a, id0Of H key) ∧ rootKey H e₂ h₂ sdKey f₂ = .ok (b, id0Of H key) ∧
      (∀ s, sdSlot s → a.keyY s = b.keyY s) ∧
      (∀ s, sdSlot s → ∀ x, e₁.keyX s = some x →
        a.normal s = some (Pyctr.keygenSlot s x (readBE key)) ∧ b.normal s = a.normal s) :=
  rootKey_forgets H e₁ e₂ h₁ h₂ f₁ f₂ sdKey key hne hk hx

/-- non-vacuity: a 16-byte key is accepted as it is -/
example : sdKeyOf (List.replicate 16 (7 : UInt8)) = .ok (List.replicate 16 7) ∧ (List.replicate 16 (7 : UInt8)) ≠ [] :=
  ⟨by simp [sdKeyOf], by simp⟩

end Pyctr.C14
