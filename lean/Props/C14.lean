namespace Pyctr.C14
end Pyctr.C14
