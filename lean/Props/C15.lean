/-
  C15 — handles onto one file work from different threads as if used one after another.

  Model: PyctrModel/Sys/Sched.lean (threads = event lists; `seek x p` / `use x` on shared position-carrying objects; locks).
  `disciplined guard` is a check on each thread's program alone.  The theorems say that it is enough: under EVERY schedule
  (any number of threads, any interleaving the lock semantics admits) every position-dependent call observes the position its
  own thread set — so a read returns the bytes at its own offset (what a serial run returns when no write intervenes) and a
  write lands at its own offset.  The programs the theorem is applied to are extracted from pyctr on every run (DESIGN §C15).
-/
import Proofs.SchedProofs
import Proofs.SchedProgress
namespace Pyctr.C15
open Pyctr Pyctr.Sched

/-- threads that start with nothing held and disciplined programs satisfy the invariant -/
theorem C15_init (guard : Nat → Nat) (progs : List (List Ev)) (pos : Nat → Nat)
    (h : ∀ p, p ∈ progs → disciplined guard p.length ⟨[], [], p⟩ = true) : Inv guard (initSt progs pos) :=
  init_inv guard progs pos h

/-- the invariant (discipline of the remaining programs, lock ownership, "my pending position is the object's position") is
    preserved by every step of every thread -/
theorem C15_step (guard : Nat → Nat) (s s' : St) (t k : Nat) (o : Option (Nat × Nat)) (hinv : Inv guard s)
    (h : step guard s t k = some (s', o)) : Inv guard s' := step_inv guard s s' t k o hinv h

/-- **no interference**: a position-dependent call observes the position its own thread set in the same critical section -/
theorem C15_no_interference (guard : Nat → Nat) (s s' : St) (t k x obs : Nat) (hinv : Inv guard s)
    (h : step guard s t k = some (s', some (x, obs))) : Expected s t x obs :=
  use_observes_own guard s s' t k x obs hinv h

/-- **every schedule**: for disciplined programs, along any schedule of any length every observation is the observer's own -/
theorem C15_all_schedules (guard : Nat → Nat) (progs : List (List Ev)) (pos : Nat → Nat)
    (h : ∀ p, p ∈ progs → disciplined guard p.length ⟨[], [], p⟩ = true) (sched : List (Nat × Nat)) :
    RunOwn guard (initSt progs pos) sched :=
  run_own guard sched _ (init_inv guard progs pos h)

/-- **no deadlock**: if, in addition, every thread takes its locks in the order of one ranking of the locks (checked on each
    program alone) and ends with nothing held, then after any schedule either every thread has finished or some thread can
    take a step -/
theorem C15_no_deadlock (guard rank : Nat → Nat) (progs : List (List Ev)) (pos : Nat → Nat)
    (hd : ∀ p, p ∈ progs → disciplined guard p.length ⟨[], [], p⟩ = true)
    (ho : ∀ p, p ∈ progs → ordered guard rank p.length ⟨[], [], p⟩ = true) (sched : List (Nat × Nat)) :
    (∀ (t : Nat) (c : TCfg), (run guard (initSt progs pos) sched).1.ths[t]? = some c → c.todo = []) ∨
      ∃ t k r, step guard (run guard (initSt progs pos) sched).1 t k = some r := by
  have h1 := run_inv guard sched _ (init_inv guard progs pos hd)
  have h2 := run_ordInv guard rank sched _ (init_ordInv guard rank progs pos ho)
  by_cases hall : ∀ (t : Nat) (c : TCfg), (run guard (initSt progs pos) sched).1.ths[t]? = some c → c.todo = []
  · left; exact hall
  · right
    have : ∃ (t : Nat) (c : TCfg), (run guard (initSt progs pos) sched).1.ths[t]? = some c ∧ c.todo ≠ [] := by
      apply Classical.byContradiction
      intro hc
      apply hall
      intro t c htc
      apply Classical.byContradiction
      intro hne
      exact hc ⟨t, c, htc, hne⟩
    obtain ⟨t, c, htc, hne⟩ := this
    exact progress guard rank _ h1 h2 t c htc hne

/-! non-vacuity: nested locks taken in rank order are ordered; the opposite nesting is not -/
example : ordered (fun _ => 7) (fun l => l) 6 ⟨[], [], [.acq 3, .acq 7, .seek 0 5, .use 0, .rel 7, .rel 3]⟩ = true := by decide
example : ordered (fun _ => 7) (fun l => l) 4 ⟨[], [], [.acq 7, .acq 3, .rel 3, .rel 7]⟩ = false := by decide

/-! non-vacuity: two windows on one file, each doing lock / seek / read / unlock, are disciplined;
    the same without the lock is not -/
example : disciplined (fun _ => 7) 4 ⟨[], [], [.acq 7, .seek 0 5, .use 0, .rel 7]⟩ = true := by decide
example : disciplined (fun _ => 7) 2 ⟨[], [], [.seek 0 5, .use 0]⟩ = false := by decide

end Pyctr.C15
