/-
  C13 — NAND: each partition is decrypted with the keyslot and counter its type dictates.

  Model: PyctrModel/Fmt/Nand.lean (`Header.fromBytes` / `toBytes`, `typeOf`, `stageKeys` / `stageCid` / `stageCounters` /
  `stageMbr`, `open'`, `openRaw`, `openSub`), PyctrModel/Engine/Otp.lean (`setupKeysFromOtp`).  The data plane of a view is
  the C01 / C09 / C12 stack `window ∘ CTR-or-TWL wrapper ∘ window ∘ file`.
  AES = `E`/`D`, SHA-256 = `H256`, SHA-1 = `H1` are parameters.
-/
import Proofs.NandProofs
import Proofs.SubRefines
import Proofs.PyFileRefines
import Proofs.CtrRefines
import Proofs.TwlRefines
namespace Pyctr.C13
open Pyctr Pyctr.Nand

/-- the keyslot of each base wrapper: TWL → 0x03 (a DSi-mode slot), CTR old/new → 0x04/0x05, FIRM → 0x06, AGB → 0x07 -/
theorem C13_slot_table :
    Base.slot .twl = 0x03 ∧ Base.slot .ctrOld = 0x04 ∧ Base.slot .ctrNew = 0x05 ∧ Base.slot .firm = 0x06 ∧ Base.slot .agb = 0x07 :=
  ⟨rfl, rfl, rfl, rfl, rfl⟩

/-- partition typing, for every table entry: (fs 1, crypt 1) → TWL, (1, 2) → CTR old, (1, 3) → CTR new, fs 3 → FIRM, fs 4 → AGB
    whatever the crypt type; everything else has no wrapper -/
theorem C13_type_table :
    (∀ n, (typeOf 1 1 n).1 = some .twl) ∧ (∀ n, (typeOf 1 2 n).1 = some .ctrOld) ∧ (∀ n, (typeOf 1 3 n).1 = some .ctrNew) ∧
    (∀ c n, (typeOf 3 c n).1 = some .firm) ∧ (∀ c n, (typeOf 4 c n).1 = some .agb) ∧
    (∀ fs c n, fs ≠ 1 → fs ≠ 3 → fs ≠ 4 → (typeOf fs c n).1 = none) ∧
    (∀ c n, c ≠ 1 → c ≠ 2 → c ≠ 3 → (typeOf 1 c n).1 = none) := typeOf_table

/-- what an opened NAND carries (keys from the OTP, counters from the CID that is used, indexes, auto-raise) -/
theorem C13_open (E D : Bytes → Bytes → Bytes) (H256 H1 : Bytes → Bytes) (e0 : Engine)
    (okey oiv keygen img : Bytes) (otp cid : Option Bytes) (ar : Bool) (s : State)
    (h : open' E D H256 H1 e0 okey oiv keygen img otp cid ar = .ok s) :
    Header.fromBytes (slice img 0 0x200) = .ok s.header ∧
    stageKeys E D H256 e0 okey oiv keygen img s.essential otp = .ok s.engine ∧
    stageCounters E D H256 H1 s.engine img s.header s.twlIndex s.ctrIndex (stageCid img s.essential cid)
      = .ok (s.counter, s.counterTwl) ∧
    s.twlIndex = findIndex s.header.table (· == .twl) ∧
    s.ctrIndex = findIndex s.header.table (fun b => b == .ctrOld || b == .ctrNew) ∧
    (ar = true → s.ctrParts ≠ [] ∧ s.twlParts ≠ []) :=
  open_ok E D H256 H1 e0 okey oiv keygen img otp cid ar s h

/-- counters from a CID: CTR = big-endian first 16 bytes of SHA-256, TWL = little-endian first 16 bytes of SHA-1 -/
theorem C13_counters_from_cid (E D : Bytes → Bytes → Bytes) (H256 H1 : Bytes → Bytes) (eng : Engine) (img : Bytes)
    (header : Header) (ti ci : Option Int) (c : Bytes) :
    stageCounters E D H256 H1 eng img header ti ci (some c) =
      .ok (some (readBE (slice (H256 c) 0 0x10) : Int), some (readLE (slice (H1 c) 0 0x10) : Int)) := rfl

/-- **inference (CTR)**: when the CID is withheld and the CTR MBR has its standard zero blocks, the inferred counter
    is the one the image was encrypted with -/
theorem C13_infer_ctr (E D : Bytes → Bytes → Bytes) (key img : Bytes) (partOff c : Nat)
    (hE : ∀ b, (E key b).length = 16) (hD : ∀ b, b.length = 16 → D key (E key b) = b)
    (hpos : partOff + 0x1D0 + 32 ≤ img.length) (hc : c + (partOff + 0x1D0) / 16 + 1 < 2 ^ 128)
    (hb0 : slice img (partOff + 0x1D0) 16 = E key (toBE 16 (c + (partOff + 0x1D0) / 16)))
    (hb1 : slice img (partOff + 0x1D0 + 16) 16 = E key (toBE 16 (c + (partOff + 0x1D0) / 16 + 1))) :
    inferCtr E D key img partOff = some (c : Int) :=
  inferCtr_correct E D key img partOff c hE hD hpos hc hb0 hb1

/-- **inference (TWL)**: with the standard TWL MBR (the two known blocks at +0x1C0 / +0x1D0, DSi-mode byte reversal) -/
theorem C13_infer_twl (E D : Bytes → Bytes → Bytes) (key img : Bytes) (partOff c : Nat)
    (hE : ∀ b, (E key b).length = 16) (hD : ∀ b, b.length = 16 → D key (E key b) = b)
    (hpos : partOff + 0x1C0 + 32 ≤ img.length) (hc : c + (partOff + 0x1C0) / 16 + 1 < 2 ^ 128)
    (hb0 : slice img (partOff + 0x1C0) 16 = xorBytes (toBE 16 twlKnown0) (E key (toBE 16 (c + (partOff + 0x1C0) / 16))).reverse)
    (hb1 : slice img (partOff + 0x1C0 + 16) 16 = xorBytes twlKnown1 (E key (toBE 16 (c + (partOff + 0x1C0) / 16 + 1))).reverse) :
    inferTwl E D key img partOff = some (c : Int) :=
  inferTwl_correct E D key img partOff c hE hD hpos hc hb0 hb1

/-- **header round trip**: a header that parses (magic, media id 0, legal image size) and whose unused table slots are
    all-zero serialises back to the original 512 bytes -/
theorem C13_header_roundtrip (b : Bytes) (hd : Header) (h : Header.fromBytes b = .ok hd)
    (hwf : UnusedZero (slice b 0x110 8) (slice b 0x118 8) (slice b 0x120 0x40)) : hd.toBytes = b :=
  header_roundtrip b hd h hwf

/-- **views (CTR / FIRM / AGB)**: a window on the CTR wrapper on the image window behaves as an ordinary fixed-size file
    over the decrypted bytes for every read/write/seek/tell history: writes re-encrypt in place (C12) -/
theorem C13_view_ctr (E : Bytes → Bytes) :
    IsFile (Sub.ops (CtrIO.ops (Sub.ops PyFile.ops) E))
      (Sub.invSub (CtrIO.invCtr (Sub.invSub (fun _ => True) PyFile.abs) (Sub.absSub PyFile.abs))
        (CtrIO.absCtr E (Sub.absSub PyFile.abs)))
      (Sub.absSub (CtrIO.absCtr E (Sub.absSub PyFile.abs))) :=
  Sub.sub_isFile (CtrIO.ctr_isFile_of_fixed E (Sub.sub_isFile pyfile_isFile.toIsFileW).toIsFileW (fun _ _ => rfl)).toIsFileW

/-- **views (TWL)**: the same through the DSi-mode wrapper -/
theorem C13_view_twl (E : Bytes → Bytes) :
    IsFile (Sub.ops (TwlIO.ops (Sub.ops PyFile.ops) E))
      (Sub.invSub (TwlIO.invTwl (Sub.invSub (fun _ => True) PyFile.abs)) (TwlIO.absTwl E (Sub.absSub PyFile.abs)))
      (Sub.absSub (TwlIO.absTwl E (Sub.absSub PyFile.abs))) :=
  Sub.sub_isFile (TwlIO.twl_isFile_of_fixed E (Sub.sub_isFile pyfile_isFile.toIsFileW).toIsFileW (fun _ _ => rfl)).toIsFileW

/-! non-vacuity of the round trip hypothesis: an all-zero table is well-formed -/
example : UnusedZero (zeros 8) (zeros 8) (zeros 64) := by
  intro i hi _
  constructor
  · simp only [zeros, List.getElem?_replicate, if_pos hi]
  · have : i = 0 ∨ i = 1 ∨ i = 2 ∨ i = 3 ∨ i = 4 ∨ i = 5 ∨ i = 6 ∨ i = 7 := by omega
    rcases this with h | h | h | h | h | h | h | h <;> subst h <;> rfl

end Pyctr.C13
