import Proofs.BytesLemmas
import Proofs.AFileLemmas
import Proofs.PyFileRefines
import Proofs.SubRefines
import Proofs.Run
