"""Independent CIA / ticket / TMD builders (3dbrew layout). Nothing here imports pyctr."""
import hashlib

import envsetup
from Cryptodome.Cipher import AES
from corr_c08 import COMMON_Y, scr

DEV_COMMON_KEY_0 = bytes.fromhex('55A3F872BDC80C555A654381139E153B')
SIG = {0x10000: (0x200, 0x3C), 0x10001: (0x100, 0x3C), 0x10002: (0x3C, 0x40), 0x10003: (0x200, 0x3C),
       0x10004: (0x100, 0x3C), 0x10005: (0x3C, 0x40)}


def align(n, a=64):
    return (n + a - 1) // a * a


def common_key(idx, dev=False, seed=b'verif'):
    if dev and idx == 0:
        return DEV_COMMON_KEY_0
    blob = envsetup.keyblob(seed + (b'/dev' if dev else b'/retail'))
    kx = int.from_bytes(blob[0x1C0:0x1D0], 'big')       # KeyX of slot 0x3D in the key area
    return scr(0x3D, kx, COMMON_Y[idx])


def build_ticket(titlekey, title_id, ck_index, dev=False, size=0x350, filler=b'\x77'):
    t = bytearray(filler * size)
    t[0:4] = (0x10004).to_bytes(4, 'big')
    enc = AES.new(common_key(ck_index, dev), AES.MODE_CBC, title_id + b'\0' * 8).encrypt(titlekey)
    t[0x1BF:0x1CF] = enc
    t[0x1DC:0x1E4] = title_id
    t[0x1F1] = ck_index
    return bytes(t)


def build_tmd(title_id, records, sig_type=0x10004, rng=None, version=0x0421):
    """records: [(id4, cindex, flags, size, sha256)]; one info record covering all chunk records"""
    sz, pad = SIG[sig_type]
    chunks = [r[0] + r[1].to_bytes(2, 'big') + r[2].to_bytes(2, 'big') + r[3].to_bytes(8, 'big') + r[4] for r in records]
    info = (0).to_bytes(2, 'big') + len(chunks).to_bytes(2, 'big') + hashlib.sha256(b''.join(chunks)).digest()
    info_block = info.ljust(0x900, b'\0')
    hdr = bytearray(0xC4)
    hdr[0:0x40] = b'Root-CA00000003-CP0000000b'.ljust(0x40, b'\0')
    hdr[0x40] = 1
    hdr[0x4C:0x54] = title_id
    hdr[0x54:0x58] = b'\0\0\0@'
    hdr[0x9C:0x9E] = version.to_bytes(2, 'big')
    hdr[0x9E:0xA0] = len(chunks).to_bytes(2, 'big')
    hdr[0xA4:0xC4] = hashlib.sha256(info_block).digest()
    return sig_type.to_bytes(4, 'big') + (rng.rbytes(sz) if rng else b'\xFF' * sz) + b'\0' * pad + bytes(hdr) + info_block + b''.join(chunks)


def content_iv(cindex):
    return cindex.to_bytes(2, 'big') + b'\0' * 14


def encrypt_content(titlekey, cindex, data):
    return AES.new(titlekey, AES.MODE_CBC, content_iv(cindex)).encrypt(data)


def build_cia(cert, ticket, tmd, contents, present, meta=b'', rng=None, extra_index_bits=()):
    """contents: [(cindex, stored bytes)] in TMD order; present: set of cindex that are in the archive"""
    index = bytearray(0x2000)
    for c in list(present) + list(extra_index_bits):
        index[c // 8] |= 0x80 >> (c % 8)
    body = b''.join(data for c, data in contents if c in present)
    hdr = (0x2020).to_bytes(4, 'little') + (0).to_bytes(2, 'little') + (0).to_bytes(2, 'little') + \
        len(cert).to_bytes(4, 'little') + len(ticket).to_bytes(4, 'little') + len(tmd).to_bytes(4, 'little') + \
        len(meta).to_bytes(4, 'little') + len(body).to_bytes(8, 'little')
    out = bytearray()

    def put(b):
        out.extend(b)
        out.extend(b'\0' * (-len(out) % 64) if not rng else rng.rbytes(-len(out) % 64))
    put(hdr + bytes(index))
    put(cert)
    put(ticket)
    put(tmd)
    put(body)
    out.extend(meta)
    return bytes(out)
