"""Regenerates /verif/MANIFEST.json from the table below (run by hand after adding a check)."""
import json
import os

VERIF = os.path.dirname(os.path.dirname(os.path.abspath(__file__)))
ALL = ['C%02d' % i for i in range(1, 21)]

COMMON_NOTE = ('Trusted: Lean 4.33 kernel with axioms propext/Classical.choice/Quot.sound only (audited by #print axioms '
               'every run; leanchecker in the thorough tier); the hand-written model is tied to the code by the '
               'correspondence check that runs the compiled model and the real pyctr on the same generated cases on '
               'every invocation; harness generators, canonicalisation and monitors; ')

CHECKS = {
    'C15': dict(
        text='Theorems (any number of threads, schedules of any length): if every thread\'s program is disciplined - every access to a '
             'shared position-carrying object under the object\'s guard lock, every position-dependent call preceded in the same '
             'critical section by the thread\'s own seek, locks properly taken and released - then the invariant (lock ownership, '
             '"my pending position is the object\'s position") is preserved by every step, and every position-dependent call '
             'observes the position its own thread set: reads return the bytes at their own offset, writes land at their own '
             'offset, under every interleaving; and (no deadlock) if moreover every program takes its locks in the order of one '
             'ranking and ends with nothing held, then after any schedule either all threads have finished or some thread can '
             'step.  The programs are extracted on every run from the real code (class-level '
             'instrumentation of Lock/RLock and of the read/write/seek/tell methods of the file classes) for every pair and '
             'some triples of handle kinds of every reader, with other handles opened/closed/dropped in between; a lock ranking is '
             'computed from the nestings seen; the Lean model evaluates discipline and ordered acquisition on them; where they fail, '
             'candidate schedules are replayed on the real code with a deterministic scheduler and a read that returns bytes '
             'no serial run returns (or a replay that hangs) is the violation.',
        note=COMMON_NOTE + 'one call on a shared object is atomic (GIL; C-level BytesIO calls); the traces come from single-threaded runs '
             'of the concrete operations, so input-dependent lock paths are covered only as far as the generated operations '
             'reach them; locks are modelled as non-reentrant (re-entrant acquisitions of an RLock are folded into the outermost one).',
        technique='Lean 4 proof (invariant over all schedules of an event model) + traces extracted from the implementation + '
                  'deterministic schedule replay',
        design='§4 C15'),
    'C19': dict(
        text='Proved: every model parser is a total Lean function; for the loops whose trip count is driven by on-disk values - the '
             'RomFS metadata walk (never more entries than the tables can hold, so cyclic / self-referential links end in '
             'RomFSEntryError), the backward LZSS decoder (at most ptr_in - comp_start control bytes: the model\'s fuel is never what '
             'stops it) the seed-database loader (never more entries than the file holds) and the chunk planner of the fully-decrypted '
             'NCCH view (any read plans at most len(file)/0x200 + 1 chunks whatever content size the header claims, the plan '
             'has no more pieces than chunks) - explicit bounds in the input length.  Measured for all 15 reader entry points: construction + full traversal of retargeted valid files, '
             'truncations and random byte strings under a line-event budget linear in the input length (sys.monitoring on pyctr '
             'code), an address-space cap and a 25 s alarm; a budget overrun, MemoryError or hang is a violation with the '
             'input as replay.',
        note=COMMON_NOTE + 'PARTIAL: for NCCH (other than the full-view planner)/CIA/CCI/TMD/SMDH/NAND/DISA/DIFF/config save the bound is the measured budget, not a '
             'theorem; wall-clock and memory are runtime facts; a constant bound from a fixed-width field is not accepted as '
             '"depending only on the input size" (the budget is linear).',
        technique='Lean 4 proof (termination / cost bounds of the value-driven loops) + budgeted execution of the implementation',
        design='§4 C19'),
    'C20': dict(
        text='Theorems: TitleVersion and ContentTypeFlags words (all 65536 words, exhaustive in the kernel); SMDH flag and region '
             'words (all flag subsets, the region-free constant, ignored bits); SMDH application title value->bytes->value and '
             'canonical image->value->image for any well-formed UTF-16 text up to the field width (non-BMP included); the icon '
             'decoder\'s address map = Morton order in row-major 8x8 tiles for every pixel of both icon sizes, colour expansion for '
             'all 65536 RGB565 values, and decode(tile(pixels)) = expand(pixels) for whole icons; seed database save->load; '
             'DIFI / IVFC / DPFS value->bytes->value; NCSD header image->value->image; config savegame: load(to_bytes(blocks)) = blocks '
             'for every block list the strict table allows (and image->value->image for canonical images), set_block/get_block '
             'laws incl. the default flags, the typed accessors (user name, RTC offset, system model) setter->getter.  Backward LZSS: '
             'decompress(encodeFile P tokens pad) = P ++ expand(tokens) for EVERY head, token list (literals / back references incl. '
             'overlapping ones, maximum distance and length) and padding that meets the decidable compressor discipline validB '
             '(C20_lzss_roundtrip, proved by a decoding invariant over the in-place buffer); pyctr has no compressor, so the '
             'reference compressor of the harness is tied to the theorem on every run: its token list laid out by the Lean encoder '
             'must be byte-identical to its own image and satisfy validB, and pyctr must decompress it to the original.',
        note=COMMON_NOTE + 'Python utf-16le codec = library semantics (strings as code-unit lists with a validity predicate); strings '
             'with NUL at either end are outside the round trip (strip); the reference compressor is greedy and in-place-safe (its outputs are checked against validB, not assumed).',
        technique='Lean 4 proof (algebraic round trips, exhaustive kernel evaluation) + model/implementation correspondence',
        design='§4 C20'),
    'C16': dict(
        text='Theorems over EVERY object graph (not only the transcribed ones): closes and I/O calls only ever raise closed flags and '
             'change nothing else; a close sets the object\'s own flag; a closed object, or a handle whose consulted inner object is '
             'closed, raises on data and position calls alike; closing a not-yet-closed reader closes everything it tracks '
             '(one level), and - for every acyclic close graph without flushing wrappers, by induction on the rank - EVERYTHING '
             'below it at every depth, maintaining the proviso it needs (closed readers have closed sub-graphs); the side conditions '
             'are decidable and evaluated on every scripted world (recorded in the evidence); reader close is idempotent; frame theorem: a close changes no object '
             'outside reach (self, owned-if-closefd, tracked) - containment and ownership.  The per-class graphs (12 reader '
             'types, handle kinds, wrappers) are a transcription tied to pyctr by an exhaustive configuration matrix: reader type '
             'x source kind x closefd x handle kind (nested readers\' handles, in-memory .code-decompressed, crypto wrappers) x '
             'orders (position-only call first, handle-first, double close, nested reader close) plus random interleavings.',
        note=COMMON_NOTE + 'transitive completeness (handles of nested readers) is shown by the model\'s execution compared with pyctr, '
             'the theorem is one-level; WeakSet/__del__ driven closing is outside the model; "I/O call" = read and tell; one known '
             'finding (pyfilesystem RawWrapper around RomFSReader.open handles raises when closed after the reader).',
        technique='Lean 4 proof (invariants over an object-graph semantics) + exhaustive model/implementation correspondence',
        design='§4 C16'),
    'C13': dict(
        text='Theorems: partition typing table (fs/crypt type -> wrapper -> keyslot); counters from a CID; counter inference for '
             'CTR (zero MBR blocks) and TWL (standard MBR blocks, DSi byte reversal) returns the counter the image was encrypted '
             'with, for any key with D inverse to E; NCSD header round trip bytes(from_bytes(b)) = b for every parsable header with '
             'zero unused slots (induction over the table loop); structure of a successful open (keys, counters, indexes, '
             'auto-raise); views = window o CTR/TWL wrapper o window refine an ordinary fixed-size file over the plaintext for every '
             'read/write history (C01/C09/C12 composed).  Tied to pyctr by differential execution over images from an independent '
             'builder (own OTP key schedule, scramblers, counters, ECB keystream), with re-open after writes.',
        note=COMMON_NOTE + 'AES/SHA-1/SHA-256 are parameters; the OTP key schedule (setupKeysFromOtp) is a transcription checked by '
             'correspondence against an independent derivation, not a theorem; GodMode9 bonus volume, sector 0x96 and the FAT '
             'layers are outside the model; counters are assumed not to wrap 2^128.',
        technique='Lean 4 proof (round trip, inference algebra, refinement stack) + model/implementation correspondence',
        design='§4 C13'),
    'C17': dict(
        text='Theorems: the DPFS level-3 reader returns slices of the view that is, byte by byte, the copy selected by the '
             'level-2 bit of the byte\'s block (dpRead_view, dpfsView_getElem); the IVFC levels are windows of that view; '
             'cache soundness of get_block for any rd/geometry (every cached entry equals the cache-free validity for that '
             'level and block, preserved by every call); hence after ANY history of reads/seeks/get_block calls on an opened '
             'container a verified read returns the slice of the verified view (stored block where the SHA-256 chain to the '
             'master hash is intact, 0xDD filler elsewhere); tamper theorem: two contents under the same master hashes cannot '
             'both have an intact chain for a block on which they differ, or H collides; table-hash rejection for DISA and DIFF.  '
             'Tied to pyctr by differential execution of the compiled model against DISA/DIFF over an independent builder, with '
             'a single-byte fault in data / hash levels / bitmaps / copies / table / header hash x read histories, and an '
             'independent reference reader as monitor.',
        note=COMMON_NOTE + 'SHA-256 is a parameter H; header fields other than the table hash are unauthenticated in the code '
             '(CMAC never verified on open) and are not faulted; faults are applied before opening; totality of reads '
             '(no IndexError) is shown by correspondence on well-formed geometries, the theorems are partial-correctness '
             'statements; the level-1/level-2 bitmap assembly (mkDp) is definitionally the model and tied by correspondence.',
        technique='Lean 4 proof (refinement + invariant over histories + tamper evidence) + model/implementation correspondence',
        design='§4 C17'),
    'C18': dict(
        text='Model of IVFCLevel4Reader.write, IVFCHashTree.write_data (hash propagation, cache invalidation), '
             'DPFSLevel3.write_data, Partition/DISA/DIFF._update_hashes and the five CMAC schemes, run differentially against '
             'pyctr over write/seek/read/re-open histories; monitors: same-session read-back = writes laid over the previous '
             'contents, re-open with a fresh reader, every block re-verified by an independent reference reader, header hash, '
             'CMAC (RFC 4493 transcription), position bookkeeping, read-only error, and the exact set of file positions that '
             'may change.  Theorems: (1) DPFSLevel3.write_data puts every byte into the copy its block\'s level-2 bit selects and changes '
             'nothing else (scatter + frame), so the level-3 view becomes the old view with the data laid over it; (2) the hash-path '
             'theorem on levels as arrays (absWrite): the written level is the overlay, every touched block and every block that '
             'verified before has an intact chain to the updated master hashes, a fully verifying tree stays so; (3) a refinement '
             'theorem: on a regular geometry (decidable predicate geomOK, evaluated on every image of every run: all generated images '
             'meet it) the model\'s write_data = absWrite on the partition\'s levels; (4) combined on the container model '
             '(C18_write_hash_path): level 4 = overlay at the reader position, chains intact, no file byte outside the partition '
             'window and the header/table area changes; plus position bookkeeping, read-only error, no-op writes, '
             'descriptor/header hash update for DIFF and DISA, CMAC inputs; (5) the re-open theorem (C18_reopen_session): open a '
             'container meeting decidable regularity conditions (regularB: geometry, DPFS tables outside the data windows, '
             'well-formed descriptor, header/table below the partitions, descriptors and windows apart - evaluated on every '
             'generated image: all meet them), make ANY sequence of seeks, reads and writes through the verified views of its '
             'partitions: re-opening the file gives exactly the state the session holds (header, descriptors, new master hashes, '
             'DPFS selection), for DIFF and for one- and two-partition DISA; the regularity conditions are part of the invariant '
             'and proved to survive every operation; ingredients: descriptor round trip (C20_partdesc), the in-partition frame of '
             'a write, the header/descriptor/CMAC update; (6) same session (C18_session, C18_session_write, C18_session_read): on a '
             'regular container whose hash tree verifies completely (allValidB, decidable; about half of the generated images, the '
             'others carry uninitialised blocks on purpose) every write keeps the tree fully verifying and every verification '
             'cache sound although only the entries of touched blocks are dropped (verdicts of untouched blocks cannot change: '
             'absWrite_stable), so each read returns the slice of the current view at the reader position and each write turns '
             'the view into the old view with the clamped data laid over it - the view behaves like an ordinary file.  Not a '
             'theorem (decided by correspondence + reference reader): same-session cache behaviour on trees with uninitialised or '
             'invalid blocks, where a verdict can legitimately change from "uninitialised" to "valid" under a cached entry.',
        note=COMMON_NOTE + 'SHA-256/AES-CMAC executable in the driver, parameters in theorems; partial updates after an '
             'IndexError inside a write are not modelled (history ends there).',
        technique='Lean 4 proof (refinement to an abstract hash tree, invariants) + model/implementation correspondence',
        design='§4 C18'),
    'C14': dict(
        text='Theorems: counter = xor of the halves of SHA-256 of the lower-cased, forward-slashed, NUL-terminated '
             'UTF-16LE path outside the recorded /backup alias guard, and exactly the counter of the rewritten path '
             '/title/<p[12:20]>/<p[20:28]>/data<p[28:]> inside it (C14_alias_exact: the complete behaviour; lengths and slices '
             'count code points, as Python does); case- and separator-insensitivity for every '
             'input; ID0 word re-packing; accepted movable.sed lengths; read/write coupling by the CTR-wrapper '
             'theorems (C12).  Tied to SDRoot/SDFS/CryptoEngine by differential execution over keys, path spellings, '
             'OS and in-memory filesystems, root and nested opendir views, write/seek/read histories, with the raw '
             'backing bytes compared against an independently derived counter and ECB keystream.',
        note=COMMON_NOTE + 'str.lower / SHA-256 / AES are parameters; pyfilesystem2 path functions and SubFS delegation '
             'are covered by correspondence only; known finding sd.backup-alias.',
        technique='Lean 4 proof + model/implementation correspondence',
        design='§4 C14'),
    'C01': dict(
        text='Refinement theorems for CTRFileIO (with its cached-cipher coherence invariant) and TWLCTRFileIO (block '
             'reversal algebra) over any readable inner file, lifted to every seek/read/tell history, instantiated for '
             'plain files and windows; AES is a parameter.  Tied to pyctr by differential execution of the compiled '
             'model (with a Lean AES) against CryptoEngine.create_ctr_io and by an ECB-only keystream monitor.',
        note=COMMON_NOTE + 'AES-128 enters the theorems as a parameter E (nothing about it is used); the PyCryptodome CTR '
             'cipher-object protocol and io.BytesIO are modelled library semantics; counter+blocks < 2^128 as in the property.',
        technique='Lean 4 refinement proof + model/implementation correspondence',
        design='§4 C01'),
    'C02': dict(
        text='cbc_read_pure proves CBCFileIO.read = slice of the whole-stream CBC plaintext for every position and size '
             'on an ordinary file; a simulation (transfer) theorem lifts it to any readable inner file; read-only-ness '
             'and unchanged inner content are part of the theorem.  Tied to pyctr by differential execution and an '
             'ECB+xor monitor with an instrumented base file.',
        note=COMMON_NOTE + 'AES decryption is a parameter D; PyCryptodome CBC decrypt (length/IV errors) and io.BytesIO are '
             'modelled; ciphertext length multiple of 16 and 16-byte IV are hypotheses (as in the property).',
        technique='Lean 4 refinement proof + model/implementation correspondence',
        design='§4 C02'),
    'C10': dict(
        text='Theorems: NCSD cartridge header — rejection of wrong magic / zero media id, listed partitions = table '
             'entries with non-zero offset at offset*0x200 / size*0x200, partition view = window (C09); CDN — '
             'lower-case name first, upper-case fallback, missing files skipped without affecting other records '
             '(selection = filter in TMD order); SD title directory — the content loop lists exactly the records whose '
             '<id>.app exists, in TMD order (C10_sdtitle_selection; run by the driver on every generated title); content '
             'views by C02/C09.  The three key-supply modes are modelled by composition of the C05/C08/C14 models and tied by '
             'correspondence.  Differential execution: the '
             'same NCCHs packaged as cartridge image, CDN directory (ticket / encrypted key + index / decrypted key, '
             'name cases, missing files), plain and SD-encrypted installed title (through SDRoot.open_title), on OS '
             'and in-memory filesystems, with monitors on listings, raw bytes and nested ExeFS files.',
        note=COMMON_NOTE + 'independent builders are the specification; pyfilesystem2/pathlib are treated as "open '
             'returns the file bytes"; equivalence across packagings is established by the monitor, not by a theorem.',
        technique='Lean 4 proof (container logic) + model/implementation correspondence',
        design='§4 C10'),
    'C11': dict(
        text='Theorems: load(serialize t) = t for every well-formed value (all six signature types, any field values, '
             '<= 64 info records, any chunk records) hence both round-trip directions; exhaustive kernel-checked facts '
             'for the two bit-packed 16-bit words; tamper theorems with SHA-256 as an uninterpreted function: any change '
             'inside the info block fails with the hash error or exhibits a collision; any replacement of the chunk-record '
             'area fails, or leaves every covered record equal, or exhibits a collision.  Tied to TitleMetadataReader by '
             'differential execution on TMDs from an independent 3dbrew-layout builder, a single-bit/byte fault stream '
             'and constructed objects.',
        note=COMMON_NOTE + 'SHA-256 is a parameter; "well-formed TMD bytes" = serialisation of a well-formed value (WFv); '
             'struct.pack / int.to_bytes semantics modelled; category-list decomposition is checked (all 65536 words in '
             'the thorough tier) but not modelled.',
        technique='Lean 4 round-trip + tamper-resistance proof (hash as parameter) + model/implementation correspondence',
        design='§4 C11'),
    'C12': dict(
        text='Coupling theorems: under every interleaving of seek/read/write the underlying file is the CTR encryption of '
             'the logical plaintext and every call returns what the plaintext file returns (full strength over windows; '
             'over growable files for writes that do not start past EOF — the excluded case is a proved counterexample '
             'C12_gap_witness and a recorded known finding).  Tied to pyctr by differential execution with a '
             'shadow-plaintext monitor.',
        note=COMMON_NOTE + 'AES is a parameter; PyCryptodome CTR object protocol (direction lock) and BytesIO modelled; '
             'partial: gap-creating writes are excluded from the theorem (known finding ctrio.write-past-eof-gap).',
        technique='Lean 4 refinement proof + model/implementation correspondence',
        design='§4 C12'),
    'C03': dict(
        text='Theorems: keyslot decision table (fixed zero/system key, crypto-method table), seed refusal and seeded '
             'KeyY, secondary key = 3DS scrambler of (KeyX[secondary slot], (seeded) KeyY); the ExeFS range builder '
             'tiles the region and colours a byte secondary-key exactly when it lies in a secondary-key file interval '
             '(adjacent files, empty files, exact media-unit multiples); the merged ExeFS view is, byte by byte, '
             'ciphertext xor the continuously-counted keystream under the key its range dictates; CTR/window views '
             'by C01/C09 composition; plain modes return the raw window.  Tied to NCCHReader by differential '
             'execution on images from an independent builder over the whole flag product, with an independent '
             'plaintext monitor on every section view and nested ExeFS file.',
        note=COMMON_NOTE + 'the independent Python NCCH builder (3dbrew layout, documented scrambler, ECB keystream) is '
             'the specification of NCCH encryption; AES/SHA-256 are parameters; the constructor glue (header field '
             'offsets, section table) is modelled and validated by correspondence, not proved.',
        technique='Lean 4 proof (decision tables, interval colouring, composition of refinements) + model/implementation correspondence',
        design='§4 C03'),
    'C04': dict(
        text='Theorems: the one-image theorem - on a regular NCCH (a decidable predicate readGeomB: the six regions stay apart, '
             'every chunk lies inside its section\'s plaintext, the header is chunk 0; evaluated on every generated image - all of '
             'them meet it) EVERY read of the fully-decrypted view, '
             'at any offset and for any requested size (inside a chunk, straddling sections, over gaps, to the end, negative or past the '
             'end: clamped), is the corresponding slice of '
             'one image, hence equal to the slice of a whole-image read; proved through a plan theorem (the planned pieces stand '
             'for exactly the chunks of the aligned request, in order, each once, keys unique, last piece = last chunk) and an '
             'assembly theorem (first piece loses the leading bytes, last piece the trailing ones); chunk classifier facts, header '
             'rewrite touches exactly two bytes, no key is set up for a no-crypto image.  Tied to the code by differential '
             'execution of seek/read histories centred on section and chunk boundaries, with the monitor = slice of the '
             'independent specification image, the declared size, and a key-less re-parse compared section by section.',
        note=COMMON_NOTE + 'get_data = slice of the section plaintext (plain window, CTR-decrypted window, two-key ExeFS '
             'concatenation) is a theorem (C04_section_sources), so the one-image theorem has only decidable hypotheses; the key-free re-parse is '
             'covered by correspondence; builder is the trusted specification.',
        technique='Lean 4 proof (plan/assembly theorems, one-image theorem) + model/implementation correspondence with metamorphic re-parse',
        design='§4 C04'),
    'C05': dict(
        text='Theorems: the MSB-first content index round-trips for every set of indices; 64-byte alignment of the '
             'cumulative offsets; title-key recovery from the ticket (given D∘E = id), dev common key 0; detection of '
             'an active content the TMD lacks; content regions and IVs; content view = CBC over window (C02∘C09); '
             'heap-level engine isolation; the title key of a ticket (and whether loading it raises) is independent of every ticket '
             'the engine loaded before (C05_titlekey_history).  Tied to CIAReader by differential execution on archives from independent '
             'builders (size residues mod 64, presence bitmaps incl. second index byte, encrypted/plain, common key '
             '0-5, retail/dev, start offsets) with monitors on geometry, title key, selection, content bytes and '
             'nested readers read in interleaved order (engine identity checked).',
        note=COMMON_NOTE + 'independent CIA/ticket/TMD/NCCH builders are the specification; AES/SHA-256 parameters; '
             'float-based util.roundup = roundupNat validated by correspondence; certificates are opaque.',
        technique='Lean 4 proof (bitmap, alignment, key recovery, composition) + model/implementation correspondence',
        design='§4 C05'),
    'C06': dict(
        text='Theorems: the reader walk (iterate_dir with its sibling loops and entry counters) on ANY metadata tables '
             'that represent a tree (decidable predicate repDir; any shape, depth, names) with distinct sibling keys '
             'returns exactly that tree and never runs out of fuel; bare level-3 parse at any start offset; file '
             'window = [start+data_offset+entry offset, +size) (C09); case-insensitive lookups depend only on '
             'lower(path); case-sensitive lookups never consult lower; missing component / directory-as-file errors.  '
             'Tied to RomFSReader by differential execution on images from an independent 3dbrew-layout builder '
             '(each image is checked against repDir by the compiled model), a malformed stream, the repository '
             'fixture, and an independent monitor on listings, sizes, bytes and lookup rules.',
        note=COMMON_NOTE + 'the Python builder is the specification of a packed RomFS (validated per image against repDir); '
             'str.lower is a parameter (ASCII in the executable model); IVFC offset arithmetic (float roundup) and '
             'pyfilesystem2 glue are covered by correspondence only; nesting beyond the CPython recursion limit is out of scope.',
        technique='Lean 4 proof (induction over the walk) + per-image translation validation + model/implementation correspondence',
        design='§4 C06'),
    'C07': dict(
        text='Theorems: parse(build table) = stored entries for every table of ten optional well-formed slots with '
             'distinct names (byte-level: chunk slicing, LE round trip, NUL stripping, dict insertion); the four '
             'alias spellings normalise to N; not-stored names raise not-found; a bad offset / non-ASCII name in any '
             'slot is the reader result; an opened entry is the window [start+0x200+offset, +size) (C09).  Tied to '
             'ExeFSReader by differential execution on spec-built headers (and malformed ones) with a direct '
             'table-vs-reader monitor and byte reads through all spellings.',
        note=COMMON_NOTE + 'Exefs.build is the trusted specification of the header layout; names are ASCII byte strings; '
             'str.lower/endswith modelled for ASCII only.',
        technique='Lean 4 round-trip proof + model/implementation correspondence',
        design='§4 C07'),
    'C08': dict(
        text='Theorems: Python rol on unbounded ints = 128-bit rotation; keygen_manual / keygen_twl_manual equal the '
             'BitVec-128 hardware scramblers for ALL X, Y; the ghost-state coherence invariant (formula / direct / '
             'free per slot) is preserved by every key operation and so holds after any sequence; factories use the '
             'normal key or raise; heap-level clone independence.  Tied to CryptoEngine by differential execution of '
             'op sequences on real engines (incl. clones, ticket loads, key-area construction) with an independent '
             'scrambler+ghost monitor.',
        note=COMMON_NOTE + 'Python dicts are modelled as total functions; constants and the key-area reading plan are '
             'transcribed and validated by correspondence only; AES for ticket loading is a parameter; the boot9 hash '
             'pin is out of scope (key area is an input).',
        technique='Lean 4 proof (bit-vector identities + invariant induction) + model/implementation correspondence',
        design='§4 C08'),
    'C09': dict(
        text='Refinement theorems (IsFile): BytesIO model, SubsectionIO over any file-like inner object, stacking, '
             'lifted to every operation history, plus frame (no byte outside the window changes) — proved in Lean for '
             'all integer arguments.  The model is tied to pyctr.fileio/common by differential execution on generated '
             'stacks x op histories with an independent ordinary-file monitor.',
        note=COMMON_NOTE + 'io.BytesIO semantics are modelled (PyFile); theorems assume windows inside the inner file; '
             'SplitFileMerger, CloseWrapper, reader open files and stacked crypto wrappers have their own refinement theorems; save-level files (DPFS/IVFC) are covered under C17/C18.',
        technique='Lean 4 refinement proof + model/implementation correspondence',
        design='§4 C09'),
}


def main():
    checks = []
    for p in ALL:
        if p not in CHECKS:
            continue
        c = CHECKS[p]
        checks.append({
            'property_id': p,
            'quick_cmd': f'./check {p} --tier quick',
            'thorough_cmd': f'./check {p} --tier thorough',
            'evidence_file': f'evidence/{p}.json',
            'replay_cmd_template': f'./check {p} --replay {{path}}',
            'engine': 'lean-model+correspondence',
            'level_claimed': {'category': 'proof', 'text': c['text'], 'design_ref': c['design']},
            'level_note': c['note'],
            'technique': c['technique'],
        })
    m = {
        'version': 1,
        'setup_cmd': 'cd lean && lake build',
        'hooks': {
            'guard': 'DESTERLY_PYCTR_VERIF',
            'enable': 'no source hooks are needed: the harness injects the bootROM key area into '
                      'pyctr.crypto.engine module globals and wraps classes in its own process',
            'baseline_off_cmd': 'cd /repo && /venv/bin/python -m pytest -ra -q -p no:cacheprovider --timeout=900 '
                                '--continue-on-collection-errors',
            'source_commits': [],
            'add_only': True,
        },
        'engines': [{
            'name': 'lean-model+correspondence', 'path': 'check', 'serves_properties': sorted(CHECKS),
            'kind_free_text': 'Lean 4 theorems over a hand-written executable model (lean/), compiled model driver, '
                              'Python differential harness (harness/) with independent property monitors'}],
        'checks': checks,
        'notes': 'Design, trusted base, findings and seeded-change results: DESIGN.md.  Known findings: known_findings.txt.',
        'not_applicable': [{'property_id': p, 'reason': 'check not built yet in this round (no technique switch; see DESIGN.md §9 for the order)'}
                           for p in ALL if p not in CHECKS],
    }
    with open(os.path.join(VERIF, 'MANIFEST.json'), 'w') as f:
        json.dump(m, f, indent=1)
    import jsonschema  # noqa
    jsonschema.validate(m, json.load(open('/root/.vp/MANIFEST.schema.json')))
    print('MANIFEST.json written:', len(checks), 'checks')


if __name__ == '__main__':
    main()
