"""C17 — save containers: verified reads return the active, authentic data or nothing."""
import envsetup
import savebuild
import savecommon as sc
from common import Rng
from framework import CaseResult, Check
from reffile import RefFile

FILL = 0xDD


def fault_positions(infos, f, kind_wanted, rng):
    """a file position of the requested class"""
    info = rng.pick(infos)
    po = info['part_off']
    D = len(info['data'])
    if kind_wanted == 'data':
        return po + savebuild.lv4_to_partition(info, rng.randrange(D))
    if kind_wanted == 'hash':
        k = rng.randrange(3)
        return po + savebuild.view_to_file(info, info['ivfc_off'][k] + rng.randrange(len(info['levels'][k])))
    if kind_wanted == 'bitmap':
        return po + rng.randrange(info['o1'], info['o3'])
    if kind_wanted == 'copies':
        return po + rng.randrange(info['o3'], info['o3'] + 2 * info['V'])
    if kind_wanted == 'table':
        return info['table_off'] + rng.randrange(info['table_len'])
    if kind_wanted == 'hdrhash':
        return info['header_hash'][0] + rng.randrange(0x20)
    if kind_wanted == 'magic':
        return 0x100 + rng.randrange(8)
    while True:
        p = rng.randrange(len(f))
        if not 0x100 <= p < 0x200:
            return p


def apply_forge(ff, infos, fg):
    """a consistent multi-byte alteration: new contents for level-4 block b of partition pi, with the SHA-256 of the new
    contents stored where the tree expects it, `depth` levels up (1: level-3 slot; 2: also the level-2 slot of the rewritten
    level-3 block; 3: also level 1) - everything short of the authenticated master hash.  Returns what was done."""
    pi, b, depth, fseed = fg
    info = infos[pi % len(infos)]
    po = info['part_off']
    log2 = info['ivfc_log2']
    frng = Rng(fseed)
    b4 = 1 << log2[3]
    D = len(info['data'])
    b %= info['nb4']
    new = frng.rbytes(min(b4, D - b * b4))
    for j, byte in enumerate(new):
        ff[po + savebuild.lv4_to_partition(info, b * b4 + j)] = byte
    h = savebuild.sha(new.ljust(b4, b'\0'))
    idx, hp = 2, b * 0x20
    for _ in range(depth):
        for j in range(0x20):
            ff[po + savebuild.view_to_file(info, info['ivfc_off'][idx] + hp + j)] = h[j]
        if idx == 0:
            break
        bs = 1 << log2[idx]
        blk = hp // bs
        n = len(info['levels'][idx])
        cur = bytes(ff[po + savebuild.view_to_file(info, info['ivfc_off'][idx] + q)] for q in range(blk * bs, min((blk + 1) * bs, n)))
        h = savebuild.sha(cur.ljust(bs, b'\0'))
        idx, hp = idx - 1, blk * 0x20
    return pi % len(infos), b


def gen_history(rng, infos, hist):
    ops = []
    for pi, info in enumerate(infos):
        D = len(info['data'])
        b4 = 1 << info['ivfc_log2'][3]
        nb = savebuild.ceil_div(D, b4)
        k = rng.randrange(nb)
        if hist == 'none':
            pass
        elif hist == 'first':
            ops += [('seek', pi, 0, 0), ('read', pi, 1)]
        elif hist == 'before':
            ops += [('seek', pi, max(k - 1, 0) * b4, 0), ('read', pi, b4)]
        elif hist == 'after':
            ops += [('seek', pi, min(k + 1, nb - 1) * b4, 0), ('read', pi, b4)]
        elif hist == 'all':
            ops += [('seek', pi, 0, 0), ('read', pi, -1)]
        elif hist == 'shallow':
            # the non-deep cache and the raw block API
            for _ in range(rng.randint(1, 4)):
                lvl = rng.randint(1, 4)
                ops.append(('blk', pi, lvl, rng.randrange(max(1, nb if lvl == 4 else 3)), 1, rng.getrandbits(1)))
        else:
            for _ in range(rng.randint(1, 6)):
                r = rng.random()
                if r < 0.45:
                    ops.append(('read', pi, rng.pick([-1, 0, 1, b4 - 1, b4, b4 + 1, 3 * b4, D, D + 3, rng.randint(0, D + 3)])))
                elif r < 0.8:
                    ops.append(('seek', pi, rng.pick([0, 1, b4 - 1, b4, k * b4, k * b4 + 1, D - 1, D, D + 1, rng.randint(0, D + 2)]),
                                0) if rng.chance(0.7) else ('seek', pi, rng.randint(-D - 2, D + 2), rng.pick([1, 2])))
                elif r < 0.9:
                    lvl = rng.randint(1, 4)
                    ops.append(('blk', pi, lvl, rng.randrange(max(1, nb if lvl == 4 else 3)), rng.getrandbits(1), rng.getrandbits(1)))
                else:
                    ops.append(('dp', pi, rng.randrange(info['V'] + 3), rng.pick([-1, 0, 1, 33, info['V']])))
    return ops


def final_reads(infos):
    ops = []
    for pi, info in enumerate(infos):
        ops += [('seek', pi, 0, 0), ('read', pi, -1), ('dp', pi, 0, -1)]
    return ops


HISTS = ['none', 'first', 'before', 'after', 'all', 'shallow', 'random']
FAULTS = ['data', 'hash', 'hash', 'bitmap', 'copies', 'table', 'hdrhash', 'magic', 'any', 'forge', 'forge', None, None]


class C17(Check):
    prop = 'C17'
    rule = ('DISA (1-2 partitions) / DIFF containers from an independent builder: block exponents 4-8 per IVFC level, '
            '2-7 for the DPFS levels, 1-24 level-4 blocks with non-block-multiple sizes, random bitmaps and inactive copies, '
            'both DIFI selectors, both active tables, internal/external level 4, uninitialised (zero-hash) blocks at level 4 and '
            'zero expected hashes one or two levels higher (half-initialised trees); consistent multi-byte alterations (a level-4 '
            'block rewritten together with its stored hash, 1-3 levels up, short of the master hash); read '
            'histories {none, first block, block before, block after, all, non-deep get_block calls, random '
            'read/seek/get_block/level-3 reads} followed by a full read; a single-byte fault in data / hash levels / '
            'bitmaps / copies / active table / header hash / magic / anywhere applied before opening; '
            'non-trivial = a fault is present or the history is non-empty')
    trusted_base = [
        'Lean 4.33 kernel; axioms propext, Classical.choice, Quot.sound only',
        'SHA-256 is a parameter H of the theorems (tamper theorem concludes "... or a collision of H"); the driver uses the '
        'executable SHA-256 of PyctrModel/Prim/Sha.lean, compared with hashlib by the correspondence',
        'the independent builder harness/savebuild.py and the reference reader in harness/savecommon.py are the specification '
        'of the container layout (3dbrew)',
        'header fields other than the table hash are not authenticated by the code (the CMAC is never verified on open): '
        'faults there are outside the property and are not injected',
        'a fault is applied to the file before it is opened; altering the file under a live reader after a block has been '
        'verified is outside the model (the validity cache is per session by design)',
    ]
    assumptions = ['container files are at least as long as their declared partitions',
                   'block exponents below 64 (larger ones are C19 territory)']

    def budget(self, tier):
        return 1500 if tier == "quick" else 6000

    def gen(self, rng, tier, i):
        geom = sc.gen_geom(rng, tier, upper=True)
        f, infos = sc.build(geom)
        fk = rng.pick(FAULTS)
        fault = None
        if fk == 'forge':
            hist = rng.pick(HISTS)
            ops = gen_history(rng, infos, hist) + final_reads(infos)
            return {'geom': geom, 'fault': None, 'forge': [rng.randrange(len(infos)), rng.randrange(64), rng.pick([1, 1, 2, 3]),
                                                            rng.getrandbits(32)],
                    'fk': fk, 'hist': hist, 'ops': [list(o) for o in ops]}
        if fk:
            fault = [fault_positions(infos, f, fk, rng), rng.pick([1, 0x80, 0xFF, rng.randint(1, 255)])]
        hist = rng.pick(HISTS)
        ops = gen_history(rng, infos, hist) + final_reads(infos)
        return {'geom': geom, 'fault': fault, 'fk': fk, 'hist': hist, 'ops': [list(o) for o in ops]}

    def exhaustive(self, tier):
        """thorough: every byte position outside the header of small containers x the fixed histories"""
        if tier != 'thorough':
            return
        rng = Rng('c17-exh')
        geoms = []
        for kind, ext in (('diff', 0), ('diff', 1), ('disa', 0)):
            geoms.append({'kind': kind, 'active': rng.pick(sc.ACTIVE_VALUES), 'seed': rng.getrandbits(32), 'parts': [
                {'size': 150, 'ivfc_log2': [5, 5, 6, 5], 'dpfs_log2': [None, 2, 5], 'external': ext, 'selector': rng.getrandbits(1),
                 'uninit': []}]})
        for g in geoms:
            f, infos = sc.build(g)
            for pos in range(len(f)):
                if 0x100 <= pos < 0x200 and not (infos[0]['header_hash'][0] <= pos < infos[0]['header_hash'][0] + 0x20):
                    continue
                hist = HISTS[pos % 6]
                hr = Rng(f'h{pos}')
                ops = gen_history(hr, infos, hist) + final_reads(infos)
                yield {'geom': g, 'fault': [pos, 1 << (pos % 8)], 'fk': 'exh', 'hist': hist, 'ops': [list(o) for o in ops]}

    def run_case(self, case, drv):
        envsetup.install()
        geom = case['geom']
        f, infos = sc.build(geom)
        ff = bytearray(f)
        fault = case.get('fault')
        if fault:
            ff[fault[0]] ^= fault[1]
        if case.get('forge'):
            apply_forge(ff, infos, case['forge'])
        ff = bytes(ff)
        ops = [tuple(o) for o in case['ops']]
        real, sess, outs = sc.run_real(geom['kind'], ff, False, ops)
        model = sc.run_model(drv, geom['kind'], ff, False, ops)
        mon = []
        i0 = infos[0]
        table = ff[i0['table_off']:i0['table_off'] + i0['table_len']]
        hh = ff[i0['header_hash'][0]:i0['header_hash'][0] + 0x20]
        magic_ok = ff[0x100:0x108] == (b'DIFF\0\0\x03\0' if geom['kind'] == 'diff' else b'DISA\0\0\x04\0')
        must_reject = sc.sha(table) != hh or not magic_ok
        info_d = {f'fault:{case.get("fk")}': 1, f'hist:{case.get("hist")}': 1, f'kind:{geom["kind"]}{len(infos)}': 1}
        if must_reject:
            if not real.startswith('e:'):
                mon.append('a container whose active table does not match the header hash (or with a wrong magic) was accepted')
            elif magic_ok and real != 'e:CorruptPartitionError':
                mon.append(f'table hash mismatch reported as {real}')
            info_d['rejected'] = 1
        elif real.startswith('e:'):
            mon.append(f'an intact table was rejected: {real}')
        else:
            refs, views, chains, lvls = [], [], [], []
            for info in infos:
                exp, chain, levels = sc.ref_content(ff, info)
                refs.append(RefFile(exp, True, clamp=True))
                part = ff[info['part_off']:info['part_off'] + info['part_len']]
                views.append(sc.ref_view(part, info)[0])
                chains.append(chain)
                lvls.append(levels)
            for op, out in zip(ops, outs):
                pi = op[1]
                info = infos[pi]
                b4 = 1 << info['ivfc_log2'][3]
                if out.startswith('e:'):
                    if op[0] == 'seek' and out == 'e:ValueError' and op[3] == 0 and op[2] < 0:
                        continue
                    if op[0] == 'blk' and out == 'e:IndexError':
                        continue    # block numbers past a level are the caller's error
                    mon.append(f'{op[:1] + op[1:4]} raised {out}')
                    break
                if op[0] == 'seek':
                    want = refs[pi].seek(op[2], op[3])
                    if out != 'n:%d' % want:
                        mon.append(f'seek{op[2:]} returned {out}, an ordinary file returns {want}')
                elif op[0] == 'read':
                    p = refs[pi].pos
                    want = refs[pi].read(op[2])
                    got = bytes.fromhex(out[2:]) if out != 'b:-' else b''
                    if got != want:
                        mon.append(f'read({op[2]}) at {p}: {len(got)} bytes differ from the verified view of the stored data '
                                   f'(first difference at +{next((k for k in range(min(len(got), len(want))) if got[k] != want[k]), min(len(got), len(want)))})')
                    # the statement itself: every block segment is the original data or filler
                    orig = info['data']
                    q = p
                    while q < p + len(got):
                        e = min((q // b4 + 1) * b4, p + len(got))
                        seg = got[q - p:e - p]
                        if seg != orig[q:e] and seg != bytes([FILL]) * len(seg):
                            mon.append(f'block {q // b4} returned altered contents as valid')
                            break
                        q = e
                elif op[0] == 'dp':
                    got = bytes.fromhex(out[2:]) if out != 'b:-' else b''
                    v = views[pi]
                    pos = min(op[2], len(v))
                    want = v[pos:] if op[3] < 0 else v[pos:pos + op[3]]
                    if got != want:
                        mon.append(f'level-3 read({op[3]}) at {op[2]} differs from the active copy selected by the bitmaps')
                elif op[0] == 'blk' and op[2] == 4 and op[4] and op[5]:
                    d, v = out[2:].split('/')
                    if v == 'T' and (op[3] >= len(chains[pi]) or chains[pi][op[3]] is not True):
                        mon.append(f'get_block(4, {op[3]}) reported valid for a block whose chain is broken')
                    if op[3] < len(chains[pi]) and chains[pi][op[3]] is True and v != 'T':
                        mon.append(f'get_block(4, {op[3]}) reported {v} for a block whose chain is intact')
                if mon:
                    break
        if any(p.get('uninit_up') for p in geom['parts']):
            info_d['tree with a zero hash above level 3'] = 1
        nontrivial = bool(fault) or bool(case.get('forge')) or case.get('hist') != 'none'
        sig = f'{geom["kind"]}:{case.get("fk")}:{case.get("hist")}' if nontrivial else ''
        return CaseResult(real, model, mon, sig, None, info_d)

    def shrink(self, case):
        ops = case['ops']
        for i in range(len(ops)):
            c = dict(case)
            c['ops'] = ops[:i] + ops[i + 1:]
            yield c
        if case.get('fault') and case['fault'][1] != 1:
            c = dict(case)
            c['fault'] = [case['fault'][0], 1]
            yield c

    def neighbours(self, case, rng):
        geom = case['geom']
        f, infos = sc.build(geom)
        for _ in range(60):
            fk = rng.pick(['data', 'hash', 'hash', 'bitmap', 'any'])
            hist = rng.pick(HISTS)
            ops = gen_history(rng, infos, hist) + final_reads(infos)
            yield {'geom': geom, 'fault': [fault_positions(infos, f, fk, rng), rng.randint(1, 255)], 'fk': fk, 'hist': hist,
                   'ops': [list(o) for o in ops]}


CHECK = C17()
