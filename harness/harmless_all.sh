#!/bin/bash
# usage: harness/harmless_all.sh <repo-copy> "<props>" [name-prefix]   -- applies every archived behaviour-preserving refactoring to a COPY of the
# repository (never /repo), runs the given checks against it (VERIF_REPO), restores the copy; prints one line per diff
cd "$(dirname "$0")/.."
repo="$1"; props="${2:-$(/venv/bin/python -c "import json; print(' '.join(c['property_id'] for c in json.load(open('MANIFEST.json'))['checks']))")}"
[ "$repo" = "/repo" ] && { echo "refusing to patch /repo"; exit 2; }
[ -x lean/.lake/build/bin/pyctr_model ] || (cd lean && lake build >/dev/null 2>&1)
total=0
for d in seeded-harmless/${3:-}*.diff; do
  n=$(basename $d .diff)
  git -C "$repo" apply "$PWD/$d" 2>/dev/null || { echo "$n: does not apply to this revision (skipped)"; continue; }
  a=0
  for p in $props; do
    out=$(VERIF_REPO="$repo" timeout 3600 ./check $p --tier quick 2>&1); rc=$?
    if [ $rc -ne 0 ]; then echo "$n: ALARM $p rc=$rc :: $(echo "$out" | grep -v KNOWN | tail -2 | tr '\n' ' ')"; a=$((a+1)); fi
  done
  git -C "$repo" checkout -- pyctr
  echo "$n: alarms=$a"; total=$((total+a))
done
echo "harmless_all done alarms=$total"
