"""Fixtures for C16: one small valid image / directory per reader type, and the handles each reader offers."""
import hashlib
import io

import ciabuild
import envsetup
import nandbuild
import ncchbuild
import romfsbuild
import savebuild
from common import Rng

# a valid backward-LZSS `.code`: three literals and five 18-byte back references (22 bytes -> 93 bytes), so that
# `.code-decompressed` becomes an in-memory entry
CODE = b'\x00\xF0' * 5 + b'CBA' + bytes([0b00011111]) + (22 | (8 << 24)).to_bytes(4, 'little') + (71).to_bytes(4, 'little')

TREE = ['d', '', [['d', 'sub', [], [['b.bin', b'B' * 40]]]], [['a.txt', b'hello romfs'], ['c.bin', b'C' * 33], ['empty.bin', b'']]]


def romfs_bytes():
    lv3, _ = romfsbuild.build_lv3(TREE)
    return lv3


def exefs_bytes():
    ex, _ = ncchbuild.build_exefs_plain([('.code', CODE), ('banner', b'\x22' * 0x30)])
    return ex


def ncch_bytes(encrypted, rng=None):
    rng = rng or Rng('c16-ncch')
    prog = 0x0004000000123400
    desc = {'key_y': rng.rbytes(16), 'program_id': prog, 'partition_id': prog, 'crypto_method': 0 if not encrypted else 1,
            'fixed_key': False, 'no_crypto': not encrypted, 'seed': None, 'extheader': rng.rbytes(0x800), 'logo': None, 'plain': None,
            'exefs_files': [('.code', CODE), ('banner', b'\x22' * 0x30)], 'romfs': romfs_bytes(), 'gaps': None,
            'tail_gap': 0, 'rng': Rng('c16-ncch-pad')}
    img, info = ncchbuild.build(desc)
    return img


def cia_bytes(encrypted=True):
    rng = Rng('c16-cia')
    tid = bytes.fromhex('0004000000123400')
    titlekey = rng.rbytes(16)
    img = ncch_bytes(False)
    stored = ciabuild.encrypt_content(titlekey, 0, img) if encrypted else img
    records = [(bytes.fromhex('0000000a'), 0, 1 if encrypted else 0, len(img), hashlib.sha256(img).digest())]
    tmd = ciabuild.build_tmd(tid, records, rng=rng)
    ticket = ciabuild.build_ticket(titlekey, tid, 0, False)
    return ciabuild.build_cia(rng.rbytes(0xA00), ticket, tmd, [(0, stored)], [0], rng=rng)


def cci_bytes(encrypted=False):
    rng = Rng('c16-cci')
    img = ncch_bytes(encrypted)
    n = len(img) // 0x200
    image = bytearray((0x20 + n) * 0x200)
    image[0x20 * 0x200:] = img
    hdr = bytearray(0x200)
    hdr[0:0x100] = rng.rbytes(0x100)
    hdr[0x100:0x104] = b'NCSD'
    hdr[0x104:0x108] = (0x20 + n).to_bytes(4, 'little')
    hdr[0x108:0x110] = bytes.fromhex('0004000000123400')[::-1]
    hdr[0x120:0x124] = (0x20).to_bytes(4, 'little')
    hdr[0x124:0x128] = n.to_bytes(4, 'little')
    image[0:0x200] = hdr
    return bytes(image)


def cdn_files(encrypted=True):
    rng = Rng('c16-cdn')
    tid = bytes.fromhex('0004000000123400')
    titlekey = rng.rbytes(16)
    img = ncch_bytes(False)
    stored = ciabuild.encrypt_content(titlekey, 0, img) if encrypted else img
    records = [(bytes.fromhex('0000000a'), 0, 1 if encrypted else 0, len(img), hashlib.sha256(img).digest())]
    return {'tmd': ciabuild.build_tmd(tid, records, rng=rng), '0000000a': stored}, titlekey


def sdtitle_files():
    rng = Rng('c16-sdt')
    tid = bytes.fromhex('0004000000123400')
    img = ncch_bytes(False)
    records = [(bytes.fromhex('0000000a'), 0, 0, len(img), hashlib.sha256(img).digest())]
    return {'00000000.tmd': ciabuild.build_tmd(tid, records, rng=rng), '0000000a.app': img}


def nand_bytes():
    e = envsetup.install()
    blob = e._b9_keyblob['retail']
    okey, oiv = e._otp_key_iv['retail']
    rng = Rng('c16-nand')
    _, dec, enc = nandbuild.make_otp(rng, False, okey, oiv)
    cid = rng.rbytes(16)
    parts = [None] * 8
    pos = 8
    for i, (fs, cr) in enumerate([(1, 1), (4, 2), (3, 2), (3, 2), (1, 2)]):
        size = 3
        plain = bytearray(rng.rbytes(size * 0x200))
        if (fs, cr) in ((1, 1), (1, 2)):
            plain[:0x200] = nandbuild.mbr([(1, 2)])
        parts[i] = {'fs': fs, 'crypt': cr, 'offset_mu': pos, 'size_mu': size, 'plain': bytes(plain)}
        pos += size
    d = {'parts': parts, 'cid': cid, 'dev': False, 'image_mu': 0x200000, 'otp_dec': dec, 'otp_enc': enc, 'sig': rng.rbytes(0x100),
         'unknown': rng.rbytes(94), 'twl_mbr_enc': rng.rbytes(66), 'essential': {'otp': True, 'cid': True}}
    img, keys, ctrs, kinds = nandbuild.build(d, blob, okey, oiv)
    return img, dec, cid


def diff_bytes(external=False):
    rng = Rng('c16-diff')
    f, infos = savebuild.build_diff(rng, rng.rbytes(300), external=external)
    return f


def disa_bytes(external=False):
    rng = Rng('c16-disa')
    f, infos = savebuild.build_disa(rng, [rng.rbytes(300), rng.rbytes(200)], external=external)
    return f
