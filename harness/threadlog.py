"""C15 instrumentation: logging locks, logging file-method wrappers, a recorder and a deterministic scheduler.

Only the harness process is instrumented (class-level monkeypatching, no change to the repository)."""
import io
import threading

_REAL_LOCK = threading.Lock
_REAL_RLOCK = threading.RLock


class Recorder:
    def __init__(self):
        self.ids = {}
        self.names = {}
        self.events = []            # (thread name, kind, payload, held-locks tuple)
        self.held = {}              # thread name -> list of lock ids
        self.mode = 'off'           # 'off' | 'record' | 'replay'
        self.gate = None
        self.keep = []              # keep objects alive so ids are not reused

    def reset(self):
        self.events = []
        self.held = {}

    def oid(self, obj, kind):
        k = id(obj)
        if k not in self.ids:
            self.ids[k] = len(self.ids)
            self.names[self.ids[k]] = kind
            self.keep.append(obj)
        return self.ids[k]

    def me(self):
        return threading.current_thread().name

    def note(self, kind, payload):
        if self.mode == 'off':
            return
        t = self.me()
        ev = (t, kind, payload, tuple(self.held.get(t, ())))
        if self.mode == 'replay' and self.gate is not None:
            self.gate.point(t, ev)
        self.events.append(ev)


REC = Recorder()


class LogLock:
    """threading.Lock with acquire/release events (non-reentrant)"""
    reentrant = False

    def __init__(self):
        self._l = _REAL_RLOCK() if self.reentrant else _REAL_LOCK()
        self._depth = {}

    def acquire(self, blocking=True, timeout=-1):
        t = REC.me()
        lid = REC.oid(self, 'rlock' if self.reentrant else 'lock')
        if self.reentrant and self._depth.get(t, 0) > 0:
            self._depth[t] += 1
            return self._l.acquire(blocking, timeout)
        REC.note('acq', lid)
        ok = self._l.acquire(blocking, timeout)
        if ok:
            self._depth[t] = 1
            REC.held.setdefault(t, []).append(lid)
        return ok

    def release(self):
        t = REC.me()
        lid = REC.oid(self, 'lock')
        if self.reentrant and self._depth.get(t, 0) > 1:
            self._depth[t] -= 1
            return self._l.release()
        self._depth[t] = 0
        if lid in REC.held.get(t, []):
            REC.held[t].remove(lid)
        self._l.release()
        REC.note('rel', lid)

    def locked(self):
        return self._l.locked() if hasattr(self._l, 'locked') else False

    __enter__ = acquire

    def __exit__(self, *a):
        self.release()


class LogRLock(LogLock):
    reentrant = True


class LogBytesIO(io.BytesIO):
    """the shared base file: every position-carrying call is an event"""

    def read(self, n=-1):
        REC.note('call', (REC.oid(self, 'file'), 'read', n))
        return super().read(n)

    def write(self, b):
        REC.note('call', (REC.oid(self, 'file'), 'write', len(b)))
        return super().write(b)

    def seek(self, pos, whence=0):
        REC.note('call', (REC.oid(self, 'file'), 'seek', pos, whence))
        return super().seek(pos, whence)

    def tell(self):
        REC.note('call', (REC.oid(self, 'file'), 'tell'))
        return super().tell()


_PATCHED = False


def _wrap(cls, name, label):
    orig = getattr(cls, name)

    def wrapper(self, *a, **kw):
        payload = (REC.oid(self, label), name) + tuple(x if isinstance(x, int) else len(x) for x in a[:2])
        REC.note('call', payload)
        return orig(self, *a, **kw)
    wrapper.__name__ = name
    wrapper.__wrapped__ = orig
    setattr(cls, name, wrapper)


def install():
    """replace the Lock names pyctr's modules imported, and wrap the position-carrying methods of its file classes"""
    global _PATCHED
    if _PATCHED:
        return
    _PATCHED = True
    import pyctr.fileio as fio
    import pyctr.crypto.engine as eng
    import pyctr.type.cia as cia
    import pyctr.type.exefs as exefs
    import pyctr.type.nand as nand
    import pyctr.type.ncch as ncch
    import pyctr.type.save.common as scommon
    import pyctr.type.save.partdesc.dpfs as dpfs
    import pyctr.type.save.partdesc.ivfc as ivfc
    for m in (fio, eng, cia, exefs, nand, ncch, scommon, dpfs, ivfc):
        if hasattr(m, 'Lock'):
            m.Lock = LogLock
        if hasattr(m, 'RLock'):
            m.RLock = LogRLock
    for cls, label in ((fio.SubsectionIO, 'window'), (fio.SplitFileMerger, 'merger'), (eng.CTRFileIO, 'ctr'),
                       (eng.CBCFileIO, 'cbc'), (dpfs.DPFSLevel3FileIO, 'dpfs')):
        for name in ('read', 'write', 'seek', 'tell'):
            if name in cls.__dict__:
                _wrap(cls, name, label)
    # TWLCTRFileIO overrides read/write
    for name in ('read', 'write'):
        if name in eng.TWLCTRFileIO.__dict__:
            _wrap(eng.TWLCTRFileIO, name, 'twl')


class patched_threading:
    """while readers and handles are constructed, `threading.Lock` / `threading.RLock` themselves hand out logging locks too, so that
    code which writes `threading.Lock()` instead of importing the name is instrumented the same way"""

    def __enter__(self):
        self.saved = (threading.Lock, threading.RLock)
        threading.Lock, threading.RLock = LogLock, LogRLock
        return self

    def __exit__(self, *a):
        threading.Lock, threading.RLock = self.saved


class Gate:
    """deterministic scheduler: threads stop at every event and continue only when the schedule says so"""

    def __init__(self, order):
        self.order = list(order)          # thread names, one entry per event to let through
        self.cv = threading.Condition(_REAL_LOCK())
        self.idx = 0
        self.free_run = False

    def point(self, t, ev):
        with self.cv:
            while not self.free_run and self.idx < len(self.order) and self.order[self.idx] != t:
                if not self.cv.wait(timeout=3):
                    self.free_run = True        # schedule infeasible (blocked on a real lock): let everything run
                    break
            if self.idx < len(self.order) and self.order[self.idx] == t:
                self.idx += 1
            self.cv.notify_all()

    def finish(self):
        with self.cv:
            self.free_run = True
            self.cv.notify_all()
