"""Makes CryptoEngine usable without a real boot9: the bootROM key area becomes an *input* (arbitrary bytes).

pyctr only accepts a SHA-256-pinned copyrighted boot9.bin; the harness assigns the already-parsed module globals
instead (no repository change).  The boot9 hash pin itself is out of scope.
"""
import hashlib

import common  # noqa: F401  (puts the repo on sys.path)


def keyblob(seed=b'verif'):
    out = b''
    i = 0
    while len(out) < 0x400:
        out += hashlib.sha256(seed + bytes([i])).digest()
        i += 1
    return out[:0x400]


def install(seed=b'verif'):
    import pyctr.crypto.engine as e
    e._b9_keyblob['retail'] = keyblob(seed + b'/retail')
    e._b9_keyblob['dev'] = keyblob(seed + b'/dev')
    e._otp_key_iv['retail'] = (hashlib.sha256(seed + b'ok').digest()[:16], hashlib.sha256(seed + b'oi').digest()[:16])
    e._otp_key_iv['dev'] = (hashlib.sha256(seed + b'dk').digest()[:16], hashlib.sha256(seed + b'di').digest()[:16])
    e.b9_blobs_loaded = True
    import logging
    logging.disable(logging.CRITICAL)      # pyctr logs expected conditions (missing partitions, failed inference) to stderr
    return e


def reset_seeddb():
    import pyctr.crypto.seeddb as s
    s._seeds.clear()
    # never look for a seeddb.bin on disk
    s._loaded_from_default_paths = True
