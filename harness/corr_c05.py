"""C05 — CIA archives: section geometry, title key, content selection, content decryption, key isolation."""
import hashlib
import io

import ciabuild
import envsetup
import ncchbuild
from common import Rng, exc_name
from framework import CaseResult, Check
from stackcheck import gen_ops


def gen_ncch_desc(rng, prog):
    method = rng.pick([0, 1, 0xA, 0xB])
    files = [[n, rng.rbytes(rng.pick([1, 0x40, 0x200, 0x230]))] for n in rng.sample(['icon', '.code', 'banner', 'logo'], rng.randint(1, 3))]
    return {'key_y': rng.rbytes(16), 'program_id': prog, 'partition_id': prog ^ rng.getrandbits(16), 'crypto_method': method,
            'fixed_key': False, 'no_crypto': rng.chance(0.2), 'seed': None, 'extheader': None, 'logo': None,
            'plain': rng.rbytes(0x20) if rng.chance(0.3) else None, 'exefs_files': files, 'romfs': None, 'gaps': None,
            'tail_gap': 0}


def render_ncch(rd, eng):
    f = rd.flags
    kn = eng.key_normal
    hexk = lambda s: kn[s].hex() if s in kn else 'none'
    ex = 'none' if rd.exefs is None else ','.join(f'{(n.encode().hex() or "-")}:{en.offset}:{en.size}' for n, en in rd.exefs.entries.items())
    return (f'ok cs={rd.content_size} pid={int(rd.partition_id, 16)} prog={int(rd.program_id, 16)} '
            f'flags={f.crypto_method},{str(f.executable).lower()},{str(f.fixed_crypto_key).lower()},'
            f'{str(f.no_romfs).lower()},{str(f.no_crypto).lower()},{str(f.uses_seed).lower()} '
            f'slots={int(rd.main_keyslot)},{int(rd.extra_keyslot)} kmain={hexk(int(rd.main_keyslot))} kextra={hexk(0x44)} '
            f'sections=' + ','.join(f'{int(s)}:{r.offset}:{r.size}:{r.iv}' for s, r in rd.sections.items()) + f' exefs={ex}')


class C05(Check):
    prop = 'C05'
    rule = ('CIA archives from an independent builder: certificate/ticket/TMD/meta sizes covering every residue mod 64, '
            '1-5 contents (NCCHs with distinct KeyY / crypto method so a shared engine would be visible), presence '
            'bitmaps incl. content indices >= 8 (second index byte) and indices the TMD lacks, encrypted/plain '
            'flags, common-key index 0-5, retail/dev, start offset 0 or inside a larger file, 0-4 tickets with other common-key '
            'indices loaded into the same engine beforehand; a sibling archive with the same content index whose TMD lacks a present '
            'content opened (and refused) first in the same process; per case one retail and one dev engine walking through 3-9 tickets '
            'whose indices come from a pool of 2-3 (returns to an earlier index with others in between); every section and '
            'content view read at random (offset, length); nested readers opened and read in random interleaved '
            'order; non-trivial = always')
    trusted_base = [
        'Lean 4.33 kernel; axioms propext, Classical.choice, Quot.sound only',
        'the independent Python CIA/ticket/TMD/NCCH builders are the specification (3dbrew layouts)',
        'AES/SHA-256 are parameters in the theorems; util.roundup (float ceil) = roundupNat on the reachable range is '
        'validated by correspondence',
        'certificates / signatures are opaque bytes',
    ]
    assumptions = ['content sizes as recorded in the TMD', 'seed database empty']

    def budget(self, tier):
        return 25 if tier == 'quick' else 300

    def gen(self, rng, tier, i):
        n = rng.randint(1, 5)
        idxs = sorted(rng.sample([0, 1, 2, 3, 7, 8, 9, 15, 16, 0x123, 0xFFFF], n))
        present = [c for c in idxs if rng.chance(0.75)] or [idxs[0]]
        ck = rng.pick([0, 1, 2, 3, 4, 5])
        return {'seed': rng.getrandbits(32), 'idxs': idxs, 'present': present, 'enc': [int(rng.chance(0.7)) for _ in idxs],
                'ck': ck, 'dev': int(rng.chance(0.35)),
                'sizes': [rng.pick([0, 1, 63, 64, 65, 0xA00, rng.randint(0, 300)]) for _ in range(3)],
                'ticket_size': rng.pick([0x350, 0x350, 0x2AC, 0x2B0 + rng.randrange(64)]),
                'start': rng.pick([0, 0, 0x40, 0x1234]), 'bad_index': rng.pick([None, None, None, 5, 0x20]),
                'tamper': rng.pick([None, None, None, 'magic', 'tmd']),
                'sibling': rng.pick([0, 0, 1, 2, 3]),
                # tickets the SAME engine loaded before this archive (common-key index of each): the title key must not depend on them
                'prior': [rng.pick([0, 0, ck, ck, 1, 2, 3, 4, 5]) for _ in range(rng.randint(1, 4))] if rng.chance(0.6) else [],   # histories that return to the archive's own index matter
                # contents that are not NCCHs (sizes: every multiple of 16, aligned to 64 or not), read with load_contents=False
                'raw': [rng.pick([0x10, 0x30, 0x40, 0x50, 0x90, 0x1F0, 0x200, 0x230]) for _ in idxs] if rng.chance(0.3) else None}

    def run_case(self, case, drv):
        from pyctr.type.cia import CIAReader, CIASection
        from pyctr.type.ncch import NCCHSection
        rng = Rng(case['seed'])
        dev = bool(case['dev'])
        e = envsetup.install()
        envsetup.reset_seeddb()
        blob = e._b9_keyblob['dev' if dev else 'retail']
        tid = bytes.fromhex('00040000') + rng.rbytes(3) + b'\0'
        prog = int.from_bytes(tid, 'big')
        titlekey = rng.rbytes(16)
        ncchs, descs, infos = {}, {}, {}
        raw = case.get('raw')
        for k, c in enumerate(case['idxs']):
            if raw:
                ncchs[c], descs[c], infos[c] = rng.rbytes(raw[k]), {'exefs_files': []}, None
                continue
            d = gen_ncch_desc(rng, prog)
            d['rng'] = Rng(case['seed'] + c)
            img, info = ncchbuild.build(d, dev)
            ncchs[c], descs[c], infos[c] = img, d, info
        records, contents = [], []
        for c, enc in zip(case['idxs'], case['enc']):
            data = ncchs[c]
            stored = ciabuild.encrypt_content(titlekey, c, data) if enc else data
            records.append((rng.rbytes(4), c, 1 if enc else 0, len(data), hashlib.sha256(data).digest()))
            contents.append((c, stored))
        cert = rng.rbytes(case['sizes'][0])
        meta = rng.rbytes(case['sizes'][1])
        ticket = ciabuild.build_ticket(titlekey, tid, case['ck'], dev, size=case['ticket_size'])
        tmd = ciabuild.build_tmd(tid, records, rng=rng)
        extra = (case['bad_index'],) if case['bad_index'] is not None and case['bad_index'] not in case['idxs'] else ()
        cia = bytearray(ciabuild.build_cia(cert, ticket, tmd, contents, set(case['present']), meta, rng, extra))
        if case['tamper'] == 'magic':
            cia[0] ^= 0x10
        elif case['tamper'] == 'tmd':
            tmd_off = ciabuild.align(0x2020) + ciabuild.align(len(cert)) + ciabuild.align(len(ticket))
            cia[tmd_off + 0x140 + 0xC4 + 5] ^= 1
        # a rejected SIBLING first, in the same process: the same archive (same content index, same contents) whose TMD lacks one
        # of the contents the index marks present - it must be refused, and refusing it must leave no trace for the archive itself
        sib_out = None
        if case.get('sibling') and len(case['present']) >= 2 and case['tamper'] is None:
            drop = case['present'][case['sibling'] % len(case['present'])]
            tmd_bad = ciabuild.build_tmd(tid, [r for r in records if r[1] != drop], rng=Rng(case['seed'] + 7))
            cia_bad = ciabuild.build_cia(cert, ticket, tmd_bad, contents, set(case['present']), meta, Rng(case['seed'] + 8), extra)
            try:
                CIAReader(io.BytesIO(cia_bad), crypto=e.CryptoEngine(dev=dev), dev=dev, load_contents=False).close()
                sib_out = 'ok'
            except Exception as ex:  # noqa
                sib_out = 'e:' + exc_name(ex)
        start = case['start']
        file_bytes = b'\xEE' * start + bytes(cia) + b'\xDD' * 9
        base = io.BytesIO(file_bytes)
        base.seek(start)
        eng = e.CryptoEngine(dev=dev)
        prior_tickets = []
        for pck in case.get('prior', []):
            pt = ciabuild.build_ticket(rng.rbytes(16), bytes.fromhex('00040000') + rng.rbytes(4), pck, dev)
            prior_tickets.append(pt)
            eng.load_from_ticket(pt)
        mon, key = [], None
        outs, models = [], []
        info_d = {'contents:%s' % ('raw' if case.get('raw') else 'ncch'): 1, 'n:%d' % len(case['idxs']): 1, 'dev:%d' % dev: 1, 'ck:%d' % case['ck']: 1,
                  'tamper:%s' % case['tamper']: 1, 'badidx:%s' % bool(extra): 1,
                  'tickets loaded before:%d' % len(case.get('prior', [])): 1}
        rd = None
        try:
            rd = CIAReader(base, crypto=eng, dev=dev, closefd=False, load_contents=not raw)
            secs = ','.join(f'{int(s)}:{r.offset}:{r.size}:{(r.iv.hex() if r.iv else "none")}' for s, r in rd.sections.items())
            tk = eng.key_normal[0x40].hex() if 0x40 in eng.key_normal else 'none'
            outs.append(f'ok total={rd.total_size} tk={tk} tid={rd.tmd.title_id} sections={secs} info=' +
                        ','.join(f'{r.id}:{r.cindex}:{int(r.type)}:{r.size}' for r in rd.content_info))
        except Exception as ex:  # noqa
            outs.append('e:' + exc_name(ex))
        models.append(drv.ask(('cia-open', file_bytes, start, int(dev), blob, tuple(prior_tickets)) if prior_tickets else
                              ('cia-open', file_bytes, start, int(dev), blob)))
        wf = case['tamper'] is None and not extra
        if wf and rd is None:
            mon.append(f'well-formed CIA rejected: {outs[0]}')
            key = 'cia.init'
        if sib_out is not None:
            info_d['rejected sibling opened first'] = 1
            outs.append('sibling ' + sib_out)
            models.append('sibling ' + drv.ask(('cia-open', cia_bad, 0, int(dev), blob)))
            if sib_out != 'e:InvalidCIAError':
                mon.append(f'the sibling archive whose TMD lacks content {drop} gave {sib_out} instead of InvalidCIAError')
                key = 'cia.missing-content'
        if extra and case['tamper'] is None:
            if rd is not None:
                mon.append('an archive whose content index names a content the TMD lacks was accepted')
                key = 'cia.missing-content'
            elif outs[0] != 'e:InvalidCIAError':
                mon.append(f'missing TMD content raised {outs[0]} instead of InvalidCIAError')
                key = 'cia.missing-content'
        if rd is not None and wf:
            # geometry
            exp_off = {}
            o = 0
            for name, blobb in ((-4, bytes(0x2020)), (-3, cert), (-2, ticket), (-1, tmd)):
                exp_off[name] = (o, len(blobb))
                o += ciabuild.align(len(blobb))
            for sname, (eo, esz) in exp_off.items():
                r = rd.sections[CIASection(sname)]
                if (r.offset, r.size) != (eo, esz) or eo % 64:
                    mon.append(f'section {sname} at {r.offset}/{r.size}, expected {eo}/{esz}')
                    key = 'cia.geometry'
            if eng.key_normal.get(0x40) != titlekey:
                mon.append('title key recovered from the ticket differs from the packed one')
                key = 'cia.titlekey'
            if [r.cindex for r in rd.content_info] != [c for c in case['idxs'] if c in case['present']]:
                mon.append(f'content_info {[r.cindex for r in rd.content_info]} != present contents {case["present"]}')
                key = 'cia.selection'
            # raw section / content reads
            for sec in [CIASection.Ticket, CIASection.TitleMetadata, CIASection.CertificateChain] + [c for c in case['present']]:
                plain = {CIASection.Ticket: ticket, CIASection.TitleMetadata: tmd, CIASection.CertificateChain: cert}.get(sec)
                if plain is None:
                    plain = ncchs[sec]
                ops = [['r', -1], ['s', 0, 0]] + gen_ops(rng, min(len(plain), 0x800), writes=False, queries=False)[:5]
                try:
                    fh = rd.open_raw_section(sec)
                    pos, toks = 0, []
                    for op in ops:
                        try:
                            if op[0] == 'r':
                                d = fh.read(op[1])
                                toks.append('b:' + (d.hex() or '-'))
                                exp = plain[pos:] if op[1] < 0 else plain[pos:pos + op[1]]
                                if d != exp and not mon:
                                    mon.append(f'section {int(sec)}: read({op[1]}) at {pos} differs from the packed bytes')
                                    key = 'cia.content.read'
                                pos += len(exp)
                            elif op[0] == 's':
                                pos = fh.seek(op[1], op[2])
                                toks.append('n:%d' % pos)
                            else:
                                toks.append('n:%d' % fh.tell())
                        except Exception as ex:  # noqa
                            toks.append('e:' + exc_name(ex))
                    outs.append(' '.join(toks))
                except Exception as ex:  # noqa
                    outs.append('e:' + exc_name(ex))
                models.append(drv.ask(('cia-ops', file_bytes, start, int(dev), blob, int(sec), tuple(tuple(o) for o in ops))))
            # nested readers, used in a random interleaved order (key isolation)
            order = [(c, n) for c in case['present'] for n, _ in descs[c]['exefs_files']]
            rng.shuffle(order)
            for c, n in order:
                try:
                    got = rd.contents[c].exefs.open(n).read()
                except Exception as ex:  # noqa
                    got = 'e:' + exc_name(ex)
                exp = dict((a, b) for a, b in descs[c]['exefs_files'])[n]
                if got != exp and not mon:
                    mon.append(f'content {c}: nested ExeFS file {n!r} differs from the packed file')
                    key = 'cia.isolation'
            for c in ([] if raw else case['present']):
                nested = rd.contents[c]
                outs.append(render_ncch(nested, nested._crypto))
                m = drv.ask(('ncch-open', ncchs[c], 0, 'none', 0, int(dev), blob))
                import re
                models.append(re.sub(r' special=\S* ', ' ', re.sub(r' ranges=\S* ', ' ', m + ' ')).strip())
                if nested._crypto is eng or any(nested._crypto is rd.contents[o]._crypto for o in case['present'] if o != c):
                    mon.append(f'content {c} shares its crypto engine with another reader')
                    key = 'cia.isolation'
        # one engine of each flavour going through a list of tickets (a ticket.db walk): indices drawn from a small pool so that
        # the walk keeps RETURNING to an index it used before, with other indices (dev: the directly installed index-0 key) between
        for wdev in (False, True):
            pool = rng.sample([0, 1, 2, 3, 4, 5], rng.pick([2, 2, 3]))
            if rng.chance(0.5) and 0 not in pool:
                pool[0] = 0
            walk = [rng.pick(pool) for _ in range(rng.randint(3, 9))]
            weng = e.CryptoEngine(dev=wdev)
            wtoks, wtickets = [], []
            for wck in walk:
                wtk, wtid = rng.rbytes(16), bytes.fromhex('00040000') + rng.rbytes(4)
                wt = ciabuild.build_ticket(wtk, wtid, wck, wdev, size=rng.pick([0x350, 0x2AC]))
                wtickets.append(wt)
                try:
                    weng.load_from_ticket(wt)
                    got = weng.key_normal.get(0x40)
                    wtoks.append(got.hex() if got is not None else 'none')
                    if got != wtk and not mon:
                        mon.append(f'ticket walk {walk} ({"dev" if wdev else "retail"}): title key of the ticket with common-key index '
                                   f'{wck} at step {len(wtoks) - 1} differs from the packed one')
                        key = 'cia.titlekey'
                except Exception as ex:  # noqa
                    wtoks.append('e:' + exc_name(ex))
                    if not mon:
                        mon.append(f'ticket walk {walk}: load_from_ticket raised {exc_name(ex)}')
                        key = 'cia.titlekey'
            outs.append(' '.join(wtoks))
            models.append(drv.ask(('ticket-walk', int(wdev), e._b9_keyblob['dev' if wdev else 'retail'], tuple(wtickets))))
            info_d['ticket walk returns to an earlier index'] = info_d.get('ticket walk returns to an earlier index', 0) + \
                int(any(walk[i] == walk[j] and any(w != walk[i] for w in walk[i + 1:j]) for i in range(len(walk)) for j in range(i + 2, len(walk))))
        real = ' | '.join(outs)
        model = ' | '.join(models)
        return CaseResult(real, model, mon, sig=str(hash(real)), key=key, info=info_d)

    def shrink(self, case):
        if len(case['idxs']) > 1:
            for i in range(len(case['idxs'])):
                idxs = case['idxs'][:i] + case['idxs'][i + 1:]
                yield dict(case, idxs=idxs, enc=case['enc'][:i] + case['enc'][i + 1:],
                           present=[c for c in case['present'] if c in idxs] or [idxs[0]])
        if case['start']:
            yield dict(case, start=0)

    def neighbours(self, case, rng):
        for i in range(40):
            c = self.gen(rng, 'quick', i)
            c['tamper'] = None
            yield c


CHECK = C05()
