#!/bin/bash
# usage: harness/seed_eval.sh <worktree> <PROP> <seed-name> [more props to run...]
# confirms a seeded change in its scratch worktree, stores it under seeded/, then applies it to /repo, runs the
# checks, and ALWAYS restores /repo afterwards.
set -u
wt="$1"; prop="$2"; name="$3"; shift 3; extra="$*"
dst=/verif/seeded/$name; mkdir -p "$dst"
cd "$wt" || exit 2
git diff -- pyctr > "$dst/patch.diff"
[ -s "$dst/patch.diff" ] || cp patch.diff "$dst/patch.diff"
cp demo.py "$dst/demo.py" 2>/dev/null; cp NOTES.txt "$dst/NOTES.txt" 2>/dev/null
git checkout -q -- pyctr
PYTHONPATH="$wt" timeout 120 /venv/bin/python demo.py >/dev/null 2>&1; orig=$?
git apply "$dst/patch.diff" || { echo "patch does not apply in worktree"; exit 2; }
PYTHONPATH="$wt" timeout 120 /venv/bin/python demo.py >/dev/null 2>&1; seeded=$?
tests=$(PYTHONPATH="$wt" timeout 300 /venv/bin/python -m pytest -q -p no:cacheprovider 2>&1 | tail -1)
echo "demo on original: exit $orig ; demo with change: exit $seeded ; tests: $tests"
# SEED_VIA_WT=1: run the checks against the worktree (which carries the change) through VERIF_REPO and leave /repo alone -
# for when another run is using /repo at the same time
if [ "${SEED_VIA_WT:-0}" = 1 ]; then
  res=""
  for p in $prop $extra; do
    out=$(cd /verif && VERIF_REPO="$wt" timeout 600 ./check $p 2>&1 | grep -v "^KNOWN" | tail -2 | head -1)
    echo "  $p: $out"; res="$res$p: $out\n"
  done
else
cd /repo && git status --short | grep -q . && { echo "/repo not clean"; exit 2; }
git apply "$dst/patch.diff" || { echo "patch does not apply to /repo"; exit 2; }
res=""
for p in $prop $extra; do
  out=$(cd /verif && timeout 600 ./check $p 2>&1 | grep -v "^KNOWN" | tail -2 | head -1)
  echo "  $p: $out"; res="$res$p: $out\n"
done
git checkout -q -- . ; git status --short | head -2
fi
/venv/bin/python - "$dst" "$prop" "$orig" "$seeded" "$tests" "$res" <<'PY'
import json,sys,os
dst,prop,orig,seeded,tests,res=sys.argv[1:7]
notes=open(os.path.join(dst,'NOTES.txt')).read() if os.path.exists(os.path.join(dst,'NOTES.txt')) else ''
json.dump({'property':prop,'needs_to_manifest':notes.strip(),'demo_exit_original':int(orig),'demo_exit_with_change':int(seeded),
           'existing_tests':tests,'checks_run':res.replace('\\n','\n').strip().split('\n')},open(os.path.join(dst,'meta.json'),'w'),indent=1)
PY
