"""Shared machinery of the pyctr verification harness.

Run with /venv/bin/python.  The repository under test is $VERIF_REPO (default /repo); it is put first on
sys.path so the *current working tree* is what gets imported (no bytecode is written).
"""
import hashlib
import json
import os
import random
import re
import subprocess
import sys
import time

VERIF = os.path.dirname(os.path.dirname(os.path.abspath(__file__)))
REPO = os.environ.get('VERIF_REPO', '/repo')
LEAN_DIR = os.path.join(VERIF, 'lean')
DRIVER_BIN = os.path.join(LEAN_DIR, '.lake', 'build', 'bin', 'pyctr_model')
ALLOWED_AXIOMS = {'propext', 'Classical.choice', 'Quot.sound'}

sys.dont_write_bytecode = True
if REPO not in sys.path:
    sys.path.insert(0, REPO)
os.environ.setdefault('DESTERLY_PYCTR_VERIF', '1')


# ----------------------------------------------------------------------------------------------- wire format
def sexp(x):
    """Serialise nested tuples/lists, ints, bytes and str symbols into one S-expression line."""
    if isinstance(x, (list, tuple)):
        return '(' + ' '.join(sexp(i) for i in x) + ')'
    if isinstance(x, bool):
        return '1' if x else '0'
    if isinstance(x, int):
        return str(x)
    if isinstance(x, (bytes, bytearray)):
        return x.hex() if x else '-'
    if isinstance(x, str):
        return x
    raise TypeError(type(x))


def unhex(s):
    return b'' if s == '-' else bytes.fromhex(s)


class Driver:
    """The compiled Lean model behind a one-line-in, one-line-out pipe."""

    def __init__(self):
        if not os.path.exists(DRIVER_BIN):
            raise RuntimeError('model driver not built: run MANIFEST.setup_cmd')
        self.p = subprocess.Popen([DRIVER_BIN], stdin=subprocess.PIPE, stdout=subprocess.PIPE,
                                  text=True, bufsize=1)

    def ask(self, expr):
        line = expr if isinstance(expr, str) else sexp(expr)
        self.p.stdin.write(line + '\n')
        self.p.stdin.flush()
        out = self.p.stdout.readline()
        if not out:
            raise RuntimeError('model driver died on: ' + line[:200])
        return out.rstrip('\n')

    def close(self):
        try:
            self.p.stdin.close()
            self.p.wait(timeout=5)
        except Exception:
            self.p.kill()


# ----------------------------------------------------------------------------------------------- exceptions
def exc_name(e):
    """Map a real exception to the small enum the model uses."""
    import io
    if isinstance(e, io.UnsupportedOperation):
        return 'UnsupportedOperation'
    for cls in type(e).__mro__:
        if cls.__module__ == 'builtins' and cls.__name__ in (
                'ValueError', 'TypeError', 'NotImplementedError', 'IndexError', 'KeyError', 'RecursionError',
                'AttributeError', 'OverflowError', 'MemoryError', 'NameError', 'OSError', 'EOFError',
                'UnicodeDecodeError', 'ZeroDivisionError'):
            # pyctr's own error classes are reported by their own name
            if type(e).__module__.startswith('pyctr'):
                return type(e).__name__
            return cls.__name__
    return type(e).__name__


# ----------------------------------------------------------------------------------------------- lean side
def lake_build():
    r = subprocess.run(['lake', 'build'], cwd=LEAN_DIR, capture_output=True, text=True)
    return r.returncode == 0, (r.stdout + r.stderr)


FORBIDDEN = re.compile(r'\b(sorry|admit|native_decide|bv_decide|implemented_by|unsafe)\b|^\s*axiom\s|maxHeartbeats\s+0\b',
                       re.M)


def strip_comments(src):
    src = re.sub(r'/-.*?-/', '', src, flags=re.S)
    return re.sub(r'--.*', '', src)


def grep_forbidden():
    hits = []
    for root in ('PyctrModel', 'Proofs', 'Props'):
        for dp, _, fns in os.walk(os.path.join(LEAN_DIR, root)):
            for fn in fns:
                if fn.endswith('.lean'):
                    p = os.path.join(dp, fn)
                    src = strip_comments(open(p).read())
                    for m in FORBIDDEN.finditer(src):
                        hits.append(f'{os.path.relpath(p, LEAN_DIR)}: {m.group(0).strip()}')
    return hits


def prop_theorems(prop):
    """Names of the theorems registered for a property: every `theorem` in Props/<prop>.lean."""
    p = os.path.join(LEAN_DIR, 'Props', prop + '.lean')
    src = strip_comments(open(p).read())
    ns = re.findall(r'^namespace\s+(\S+)', src, re.M)
    prefix = (ns[0] + '.') if ns else ''
    return [prefix + n for n in re.findall(r'^theorem\s+(\S+)', src, re.M)]


def audit(prop):
    """`#print axioms` for every registered theorem.  Returns (obligations, discharged, details)."""
    names = prop_theorems(prop)
    tmp = os.path.join(LEAN_DIR, f'.audit_{prop}_{os.getpid()}.lean')
    with open(tmp, 'w') as f:
        f.write(f'import Props.{prop}\n')
        for n in names:
            f.write(f'#print axioms {n}\n')
    try:
        r = subprocess.run(['lake', 'env', 'lean', tmp], cwd=LEAN_DIR, capture_output=True, text=True)
    finally:
        os.unlink(tmp)
    out = r.stdout + r.stderr
    details = {}
    # "'name' depends on axioms: [a, b]"  or  "'name' does not depend on any axioms"
    for m in re.finditer(r"'([^']+)' depends on axioms: \[([^\]]*)\]", out, re.S):
        details[m.group(1)] = [a.strip() for a in m.group(2).replace('\n', ' ').split(',') if a.strip()]
    for m in re.finditer(r"'([^']+)' does not depend on any axioms", out):
        details[m.group(1)] = []
    discharged = 0
    bad = {}
    for n in names:
        if n in details and set(details[n]) <= ALLOWED_AXIOMS:
            discharged += 1
        else:
            bad[n] = details.get(n, 'not-found: ' + out[-300:])
    return names, discharged, details, bad


# ----------------------------------------------------------------------------------------------- findings
def load_known_findings():
    """known_findings.txt: `finding: property=<id> key=<key> <text>` lines suppress exactly that key."""
    res = {}
    p = os.path.join(VERIF, 'known_findings.txt')
    if os.path.exists(p):
        for line in open(p):
            m = re.match(r'finding:\s+property=(\S+)\s+key=(\S+)\s+(.*)', line.strip())
            if m:
                res.setdefault(m.group(1), {})[m.group(2)] = m.group(3)
    return res


def case_hash(obj):
    return hashlib.sha256(json.dumps(obj, sort_keys=True, default=_js).encode()).hexdigest()[:12]


def _js(o):
    if isinstance(o, (bytes, bytearray)):
        return {'hex': bytes(o).hex()}
    if isinstance(o, tuple):
        return list(o)
    if isinstance(o, set):
        return sorted(o)
    return repr(o)


def dump_json(obj, path):
    os.makedirs(os.path.dirname(path), exist_ok=True)
    with open(path, 'w') as f:
        json.dump(obj, f, indent=1, sort_keys=True, default=_js)


def revive(o):
    """inverse of _js for bytes"""
    if isinstance(o, dict):
        if set(o.keys()) == {'hex'}:
            return bytes.fromhex(o['hex'])
        return {k: revive(v) for k, v in o.items()}
    if isinstance(o, list):
        return [revive(i) for i in o]
    return o


def seed_from_env():
    try:
        return int(os.environ.get('VERIF_SEED', '0'))
    except ValueError:
        return 0


class Rng(random.Random):
    def pick(self, seq):
        return seq[self.randrange(len(seq))]

    def rbytes(self, n):
        return bytes(self.getrandbits(8) for _ in range(n))

    def chance(self, p):
        return self.random() < p
