"""Builds real pyctr file-object stacks from the node descriptions the Lean driver understands."""
import io

from common import exc_name, unhex


class LogBytesIO(io.BytesIO):
    """BytesIO that records every byte range touched (for confinement checks)."""

    def __init__(self, data=b''):
        super().__init__(data)
        self.log = []

    def read(self, n=-1):
        p = self.tell()
        d = super().read(n)
        self.log.append(('r', p, p + len(d)))
        return d

    def write(self, b):
        p = self.tell()
        n = super().write(b)
        if n:
            self.log.append(('w', p, p + n))
        return n


last_inner = None      # the file object handed to the most recently built crypto wrapper


def build_real(node, leaves):
    """node: ['bio', bytes] | ['sub', off, size, node] | ['merge', [[node, size], ...]] | ['cw', node] | ['opf', bytes]"""
    from pyctr.fileio import SubsectionIO, SplitFileMerger, CloseWrapper
    kind = node[0]
    if kind == 'bio':
        f = LogBytesIO(node[1])
        leaves.append(f)
        return f
    if kind == 'sub':
        return SubsectionIO(build_real(node[3], leaves), node[1], node[2])
    if kind == 'merge':
        return SplitFileMerger([(build_real(n, leaves), sz) for n, sz in node[1]])
    if kind == 'cw':
        return CloseWrapper(build_real(node[1], leaves))
    if kind == 'opf':
        from pyctr.type.exefs import ExeFSReader, ExeFSEntry, CODE_DECOMPRESSED_NAME
        data = node[1]
        rd = ExeFSReader(io.BytesIO(b'\0' * 0x200), closefd=False)
        rd._code_dec = data
        rd.entries[CODE_DECOMPRESSED_NAME] = ExeFSEntry(name=CODE_DECOMPRESSED_NAME, offset=-1, size=len(data),
                                                        hash=b'\0' * 32)
        f = rd.open(CODE_DECOMPRESSED_NAME)
        f._keepalive = rd
        leaves.append(io.BytesIO(data))
        return f
    if kind in ('ctr', 'twl', 'cbc'):
        import envsetup
        e = envsetup.install()
        eng = e.CryptoEngine()
        inner = build_real(node[3], leaves)
        global last_inner
        last_inner = inner
        if kind == 'cbc':
            eng.set_normal_key(0x10, node[1])
            return eng.create_cbc_io(0x10, inner, node[2])
        slot = ctr_slot(kind, node[1])
        eng.set_normal_key(slot, node[1])
        return eng.create_ctr_io(slot, inner, node[2])
    raise ValueError(kind)


def ctr_slot(kind, key):
    """the keyslot a generated CTR wrapper is created on: every DSi slot (0-3) for 'twl', slots on both sides of the 3DS range for
    'ctr' (4 = the first one) - a function of the key so that a case replays identically"""
    return key[0] % 4 if kind == 'twl' else (0x04, 0x10, 0x2C, 0x3F)[key[0] % 4]


def ecb(key, blk):
    from Cryptodome.Cipher import AES
    return AES.new(key, AES.MODE_ECB).encrypt(blk)


def ctr_xor(key, ctr, data, twl):
    """whole-stream CTR transform computed with single-block ECB calls only"""
    out = bytearray(len(data))
    for blk in range((len(data) + 15) // 16):
        ks = ecb(key, ((ctr + blk) % (1 << 128)).to_bytes(16, 'big'))
        if twl:
            ks = ks[::-1]
        for j in range(16):
            i = blk * 16 + j
            if i < len(data):
                out[i] = data[i] ^ ks[j]
    return bytes(out)


def cbc_plain(key, iv, ct):
    from Cryptodome.Cipher import AES
    dec = AES.new(key, AES.MODE_ECB)
    out = bytearray()
    prev = iv
    for b in range(0, len(ct) - len(ct) % 16, 16):
        blk = ct[b:b + 16]
        out += bytes(x ^ y for x, y in zip(dec.decrypt(blk), prev))
        prev = blk
    return bytes(out)


def node_sexp(node):
    kind = node[0]
    if kind in ('bio', 'opf'):
        return (kind, node[1])
    if kind == 'sub':
        return ('sub', node[1], node[2], node_sexp(node[3]))
    if kind == 'merge':
        return ('merge',) + tuple((node_sexp(n), sz) for n, sz in node[1])
    if kind == 'cw':
        return ('cw', node_sexp(node[1]))
    if kind in ('ctr', 'twl', 'cbc'):
        return (kind, node[1], node[2], node_sexp(node[3]))
    raise ValueError(kind)


def op_sexp(op):
    return tuple(op)


def view_content(node, bases, i=None):
    """content of the top-level view as a function of the bottom buffers (independent of any pyctr code)"""
    it = iter(bases) if i is None else i

    def go(n):
        k = n[0]
        if k in ('bio', 'opf'):
            return bytes(next(it))
        if k == 'sub':
            return go(n[3])[n[1]:n[1] + n[2]]
        if k == 'merge':
            return b''.join(go(c)[:sz] for c, sz in n[1])
        if k == 'cw':
            return go(n[1])
        if k in ('ctr', 'twl'):
            return ctr_xor(n[1], n[2], go(n[3]), k == 'twl')
        if k == 'cbc':
            return cbc_plain(n[1], n[2], go(n[3]))
        raise ValueError(k)
    return go(node)


def is_fixed(node):
    k = node[0]
    if k == 'bio':
        return False
    if k == 'cw':
        return is_fixed(node[1])
    if k in ('ctr', 'twl', 'cbc'):
        return is_fixed(node[3])
    return True


def is_readonly(node):
    k = node[0]
    if k in ('merge', 'opf', 'cbc'):
        return True
    if k == 'sub':
        return is_readonly(node[3])
    if k == 'cw':
        return is_readonly(node[1])
    if k in ('ctr', 'twl'):
        return is_readonly(node[3])
    return False


def clamps(node):
    """does an absolute seek past the end get clamped to the size?"""
    k = node[0]
    if k in ('bio', 'merge'):
        return False
    if k == 'cw':
        return clamps(node[1])
    if k in ('ctr', 'twl', 'cbc'):
        return clamps(node[3])
    return True


def well_formed(node):
    """every window lies inside what it is a window of; returns (ok, length)"""
    k = node[0]
    if k in ('bio', 'opf'):
        return True, len(node[1])
    if k == 'sub':
        ok, ln = well_formed(node[3])
        return ok and node[1] + node[2] <= ln, node[2]
    if k == 'merge':
        tot, ok = 0, True
        for c, sz in node[1]:
            o, ln = well_formed(c)
            ok = ok and o and sz <= ln
            tot += sz
        return ok, tot
    if k == 'cw':
        return well_formed(node[1])
    if k in ('ctr', 'twl'):
        return well_formed(node[3])
    if k == 'cbc':
        ok, ln = well_formed(node[3])
        return ok and ln % 16 == 0 and len(node[2]) == 16, ln


def abs_window(node):
    """for a chain ending in one bio: absolute [lo, hi) of the view inside the bottom buffer, else None"""
    k = node[0]
    if k == 'bio':
        return 0, None
    if k == 'cw':
        return abs_window(node[1])
    if k in ('ctr', 'twl', 'cbc'):
        return abs_window(node[3])
    if k == 'sub':
        r = abs_window(node[3])
        if r is None:
            return None
        lo, hi = r
        nlo = lo + node[1]
        nhi = nlo + node[2]
        return nlo, nhi if hi is None else min(nhi, hi)
    return None


def run_real(f, ops):
    outs = []
    for op in ops:
        try:
            if op[0] == 'r':
                outs.append('b:' + (f.read(op[1]).hex() or '-'))
            elif op[0] == 'w':
                outs.append('n:%d' % f.write(op[1]))
            elif op[0] == 's':
                outs.append('n:%d' % f.seek(op[1], op[2]))
            elif op[0] == 't':
                outs.append('n:%d' % f.tell())
            elif op[0] == 'q':
                outs.append('q:%d' % bool(getattr(f, op[1])()))
        except Exception as e:  # noqa
            outs.append('e:' + exc_name(e))
    return outs
