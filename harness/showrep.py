import json,sys
d=json.load(open(sys.argv[1]))
print(d['kind'], d.get('monitor'), d.get('key'))
def short(n):
    if isinstance(n,dict) and 'hex' in n: return n['hex'][:16]+('..' if len(n['hex'])>16 else '')+f"[{len(n['hex'])//2}]"
    if isinstance(n,dict): return {k:short(v) for k,v in n.items()}
    if isinstance(n,list): return [short(i) for i in n]
    return n
print(short(d['case']))
print('real ', d['observed'][:400]); print('model', d['model_output'][:400])
