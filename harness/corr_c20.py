"""C20 — parse/serialise and compress/decompress pairs are mutual inverses."""
import hashlib
import io
import struct

import envsetup
from common import Rng, exc_name, sexp
from framework import CaseResult, Check

LANGS = 12
CHARS = ['a', 'Z', '0', ' ', 'é', 'ß', 'あ', '漢', ' ', '￿', '\U0001F600', '\U00010000', '\U0010FFFF', '한', 'Ж']
KNOWN = None


def known_blocks():
    global KNOWN
    if KNOWN is None:
        from pyctr.type.config.save import KNOWN_BLOCKS
        KNOWN = dict(KNOWN_BLOCKS)
    return KNOWN


def gen_text(rng, max_units):
    n = rng.pick([0, 1, 2, max_units // 2, max_units - 1, max_units, rng.randint(0, max_units)])
    out = ''
    while True:
        c = rng.pick(CHARS)
        if len((out + c).encode('utf-16le')) // 2 > n:
            break
        out += c
    return out


def enc_field(s, width):
    return s.encode('utf-16le').ljust(width, b'\0')


def morton(x, y, width):
    tile = (y // 8) * (width // 8) + (x // 8)
    xi, yi = x % 8, y % 8
    inner = 0
    for bit in range(3):
        inner |= ((xi >> bit) & 1) << (2 * bit)
        inner |= ((yi >> bit) & 1) << (2 * bit + 1)
    return tile * 64 + inner


def tile_image(pix, width, height):
    out = bytearray(width * height * 2)
    for y in range(height):
        for x in range(width):
            out[2 * morton(x, y, width):2 * morton(x, y, width) + 2] = pix[y][x].to_bytes(2, 'little')
    return bytes(out)


def expand565(v):
    return ((v >> 11) * 255 // 31, ((v >> 5) & 63) * 255 // 63, (v & 31) * 255 // 31)


FLAG_BITS = [0, 1, 2, 3, 4, 5, 6, 7, 8, 10, 12]


def build_smdh(titles, flagbits, regionbits, region_free, small, large, rng):
    """independent SMDH builder (3dbrew layout)"""
    out = bytearray(0x36C0)
    out[0:4] = b'SMDH'
    out[4:8] = rng.rbytes(4)
    for i in range(16):
        t = titles[i] if i < len(titles) else None
        if t is not None:
            out[8 + 0x200 * i:8 + 0x200 * (i + 1)] = enc_field(t[0], 0x80) + enc_field(t[1], 0x100) + enc_field(t[2], 0x80)
    out[0x2008:0x2018] = rng.rbytes(16)                   # ratings
    rw = 0x7FFFFFFF if region_free else sum(1 << i for i, b in enumerate(regionbits) if b)
    out[0x2018:0x201C] = rw.to_bytes(4, 'little')
    out[0x201C:0x2028] = rng.rbytes(12)
    fw = sum(1 << FLAG_BITS[i] for i, b in enumerate(flagbits) if b)
    out[0x2028:0x202C] = fw.to_bytes(4, 'little')
    out[0x202C:0x2040] = rng.rbytes(0x14)
    out[0x2040:0x24C0] = tile_image(small, 24, 24)
    out[0x24C0:0x36C0] = tile_image(large, 48, 48)
    return bytes(out), fw, rw


# ---- reference backward LZSS compressor
def blz_tokens(x):
    """greedy tokens in decode order (from the end of x): ('L', byte) or ('R', distance, length)"""
    n = len(x)
    q = n - 1
    toks = []
    while q >= 0:
        best = None
        maxd = min(0x1002, n - 1 - q)
        for d in range(3, maxd + 1):
            ln = 0
            while ln < 18 and q - ln >= 0 and x[q - ln] == x[q - ln + d]:
                ln += 1
            if ln >= 3 and (best is None or ln > best[1]):
                best = (d, ln)
                if ln == 18:
                    break
        if best:
            toks.append(('R', best[0], best[1]))
            q -= best[1]
        else:
            toks.append(('L', x[q]))
            q -= 1
    return toks


def blz_compress(x, pad=0, want_choice=False):
    """-> compressed image or None when nothing is gained (with want_choice: (image, head length, tokens used))"""
    toks = blz_tokens(x)
    # cumulative output / input bytes after each token (a control byte is read before every group of 8)
    outc, inc = [0], [0]
    for i, t in enumerate(toks):
        o = 1 if t[0] == 'L' else t[2]
        c = (1 if t[0] == 'L' else 2) + (1 if i % 8 == 0 else 0)
        outc.append(outc[-1] + o)
        inc.append(inc[-1] + c)
    best = None
    for j in range(len(toks), 0, -1):
        if all((outc[j] - outc[i]) >= (inc[j] - inc[i]) for i in range(j)) and outc[j] - inc[j] - 8 - pad >= 0:
            best = j
            break
    if best is None:
        return None
    j = best
    k = len(x) - outc[j]
    # encode tokens 0..j-1 backwards: the stream is read from its end
    stream = bytearray()
    for g in range(0, j, 8):
        group = toks[g:g + 8]
        ctrl = 0
        body = bytearray()
        for idx, t in enumerate(group):
            if t[0] == 'R':
                ctrl |= 0x80 >> idx
                code = ((t[2] - 3) << 12) | (t[1] - 3)
                body += bytes([code >> 8, code & 0xFF])      # read as little-endian after the pointer moved back by 2
            else:
                body.append(t[1])
        stream += bytes([ctrl]) + body
    comp = bytes(stream[::-1])
    assert len(comp) == inc[j]
    comp_size = len(comp) + pad + 8
    footer = (comp_size | ((8 + pad) << 24)).to_bytes(4, 'little') + (outc[j] - inc[j] - 8 - pad).to_bytes(4, 'little')
    if want_choice:
        return x[:k] + comp + b'\xFF' * pad + footer, k, toks[:j]
    return x[:k] + comp + b'\xFF' * pad + footer


def gen_code(rng):
    kind = rng.pick(['runs', 'text', 'mixed', 'tail', 'overlap'])
    if kind == 'runs':
        return b''.join(bytes([rng.randrange(256)]) * rng.randint(1, 40) for _ in range(rng.randint(1, 12)))
    if kind == 'text':
        words = [rng.rbytes(rng.randint(2, 6)) for _ in range(5)]
        return b''.join(rng.pick(words) for _ in range(rng.randint(4, 60)))
    if kind == 'tail':
        words = [rng.rbytes(rng.randint(2, 6)) for _ in range(4)]
        return rng.rbytes(rng.randint(10, 80)) + b''.join(rng.pick(words) for _ in range(rng.randint(8, 40)))
    if kind == 'overlap':
        unit = rng.rbytes(rng.randint(1, 4))
        return rng.rbytes(rng.randint(0, 9)) + unit * rng.randint(5, 60) + rng.rbytes(rng.randint(0, 5))
    return rng.rbytes(rng.randint(0, 30)) + bytes(rng.randint(5, 50)) + rng.rbytes(rng.randint(0, 30)) * rng.randint(1, 3)


class C20(Check):
    prop = 'C20'
    rule = ('per codec: SMDH images from an independent builder (titles with BMP / non-BMP characters up to the field width in any of '
            'the 12 language slots, every flag-bit and region-bit subset incl. the region-free constant, random RGB565 icons tiled '
            'by an independent Morton tiler); raw title fields incl. lone surrogates; seed databases (random ids / seeds, canonical '
            'and non-canonical images); config saves (random subsets and orders of the strict table, data of the exact sizes, '
            'canonical images); DIFI/IVFC/DPFS descriptors; NCSD headers; all 16-bit words (thorough: all 65536); code images '
            '(runs, repeated words, incompressible tails, overlapping matches) through a reference backward-LZSS compressor, and '
            'random corruptions of compressed images; non-trivial = always')
    trusted_base = [
        'Lean 4.33 kernel; axioms propext, Classical.choice, Quot.sound only',
        'the utf-16le codec of Python is library semantics: strings are modelled as code-unit lists with a validity predicate',
        'the independent builders (SMDH, Morton tiler, seed DB / config save serialisers, reference LZSS compressor) in '
        'harness/corr_c20.py are the specifications of the layouts',
        'Pillow image objects are not compared (only the pixel arrays)',
    ]
    assumptions = ['strings contain no NUL characters (a title with a leading or trailing NUL is not representable)']

    def budget(self, tier):
        return 120 if tier == 'quick' else 1500

    def exhaustive(self, tier):
        step = 1 if tier == 'thorough' else 257
        for w in range(0, 65536, step):
            yield {'kind': 'bits16', 'w': w}
        for w in (0, 1, 0x7F, 0x7FFFFFFF, 0x7FFFFFFE, 0xFFFFFFFF, 0x80000000, 0x15FF, 0x1FFF, 0xFFFF):
            yield {'kind': 'smdhbits', 'f': w & 0xFFFFFFFF, 'r': w}

    def gen(self, rng, tier, i):
        kind = rng.pick(['smdh', 'smdh', 'title-raw', 'seeddb', 'seeddb-raw', 'cfg', 'cfg', 'cfg-raw', 'cfg-typed', 'cfg-typed', 'desc', 'ncsd',
                         'lzss', 'lzss', 'lzss-bad', 'smdhbits'])
        return {'kind': kind, 'seed': rng.getrandbits(32)}

    # ------------------------------------------------------------------------------------------------------------
    def run_case(self, case, drv):
        envsetup.install()
        rng = Rng(case.get('seed', 0))
        fn = getattr(self, 'run_' + case['kind'].replace('-', '_'))
        real, model, mon = fn(case, rng, drv)
        return CaseResult(real, model, mon, case['kind'] + ':' + str(case.get('seed', case.get('w'))), None, {'kind:' + case['kind']: 1})

    def run_bits16(self, case, rng, drv):
        from pyctr.type.tmd import TitleVersion, ContentTypeFlags
        w = case['w']
        v = TitleVersion.from_int(w)
        f = ContentTypeFlags.from_int(w)
        real = f'ok {v.major}.{v.minor}.{v.micro} {int(v)} {int(f)}'
        model = drv.ask(sexp(['bits16', w]))
        mon = []
        if int(v) != w:
            mon.append(f'TitleVersion round trip of {w:#x} gives {int(v):#x}')
        if int(f) != (w & 0xC007):
            mon.append(f'ContentTypeFlags of {w:#x} serialises to {int(f):#x}, expected the five flag bits {w & 0xC007:#x}')
        if ContentTypeFlags.from_int(int(f)) != f or TitleVersion.from_int(int(v)) != v:
            mon.append('value -> int -> value is not the identity')
        return real, model, mon

    def run_smdhbits(self, case, rng, drv):
        from pyctr.type.smdh import SMDHFlags, SMDHRegionLockout
        fw = case.get('f', rng.getrandbits(32)) & 0xFFFFFFFF
        rw = case.get('r', rng.pick([rng.getrandbits(7), 0x7FFFFFFF, rng.getrandbits(32)])) & 0xFFFFFFFF
        f = SMDHFlags.from_bytes(fw.to_bytes(4, 'little'))
        r = SMDHRegionLockout.from_bytes(rw.to_bytes(4, 'little'))
        real = 'ok ' + ''.join('1' if b else '0' for b in f) + ' ' + ''.join('1' if b else '0' for b in r)
        model = drv.ask(sexp(['smdh-bits', fw, rw]))
        mon = []
        if list(f) != [bool(fw >> b & 1) for b in FLAG_BITS]:
            mon.append(f'flags word {fw:#x} parsed as {list(f)}')
        if list(r)[:7] != [bool(rw >> b & 1) for b in range(7)] or r.RegionFree != (rw == 0x7FFFFFFF):
            mon.append(f'region word {rw:#x} parsed as {list(r)}')
        return real, model, mon

    def run_smdh(self, case, rng, drv):
        from pyctr.type.smdh import SMDH
        titles = []
        for i in range(16):
            if rng.chance(0.75):
                titles.append((gen_text(rng, 0x40), gen_text(rng, 0x80), gen_text(rng, 0x40)))
            else:
                titles.append(None)
        flagbits = [rng.getrandbits(1) for _ in FLAG_BITS]
        regionbits = [rng.getrandbits(1) for _ in range(7)]
        free = rng.chance(0.2)
        small = [[rng.getrandbits(16) for _ in range(24)] for _ in range(24)]
        large = [[rng.pick([0, 0xFFFF, 0x8410, rng.getrandbits(16)]) for _ in range(48)] for _ in range(48)]
        img, fw, rw = build_smdh(titles, flagbits, regionbits, free, small, large, rng)
        mon = []
        try:
            s = SMDH.load(io.BytesIO(img))
        except Exception as e:      # noqa
            return ['e:' + exc_name(e)], ['?'], [f'a well-formed SMDH was rejected: {exc_name(e)}']
        from pyctr.type.smdh import region_names
        real, model = [], []
        for i, name in enumerate(region_names):
            t = s.names[name]
            want = titles[i] or ('', '', '')
            if (t.short_desc, t.long_desc, t.publisher) != want:
                mon.append(f'title slot {i} ({name}) read back as {t!r}, built from {want!r}')
            raw = img[8 + 0x200 * i:8 + 0x200 * (i + 1)]
            if bytes(t) != raw:
                mon.append(f'title slot {i}: bytes(AppTitle) differs from the stored 0x200 bytes')
            u = lambda z: (z.encode('utf-16le').hex() or '-')
            real.append(f'ok {u(t.short_desc)} {u(t.long_desc)} {u(t.publisher)} {bytes(t).hex()}')
            model.append(drv.ask(sexp(['apptitle', raw])))
        if [bool(b) for b in s.flags] != [bool(b) for b in flagbits]:
            mon.append(f'flags {flagbits} read back as {list(s.flags)}')
        rl = list(s.region_lockout)
        if free:
            if rl != [True] * 8:
                mon.append(f'region-free constant read back as {rl}')
        elif rl != [bool(b) for b in regionbits] + [False]:
            mon.append(f'region bits {regionbits} read back as {rl}')
        real.append('ok ' + ''.join('1' if b else '0' for b in s.flags) + ' ' + ''.join('1' if b else '0' for b in s.region_lockout))
        model.append(drv.ask(sexp(['smdh-bits', fw, rw])))
        for arr, src, w, off, ln in ((s.icon_small_array, small, 24, 0x2040, 0x480), (s.icon_large_array, large, 48, 0x24C0, 0x1200)):
            want = [[expand565(v) for v in row] for row in src]
            if [list(map(tuple, row)) for row in arr] != want:
                mon.append(f'{w}x{w} icon: decoded pixels differ from the Morton-tiled source')
            real.append('ok ' + bytes(c for row in arr for px in row for c in px).hex())
            model.append(drv.ask(sexp(['tiled', img[off:off + ln], w, w])))
        # what a load returns belongs to the caller: the icon arrays are edited in place (a frame drawn, rows dropped) and the SAME
        # image is loaded again - the second value must again be the decoding of the image, not of what the caller did to the first
        try:
            for arr in (s.icon_small_array, s.icon_large_array):
                if isinstance(arr, list) and arr:
                    if isinstance(arr[0], list) and arr[0]:
                        arr[0][0] = (1, 2, 3)
                    del arr[-1]
        except Exception:  # noqa
            pass
        try:
            s2 = SMDH.load(io.BytesIO(img))
            for arr, src, w in ((s2.icon_small_array, small, 24), (s2.icon_large_array, large, 48)):
                if [list(map(tuple, row)) for row in arr] != [[expand565(v) for v in row] for row in src]:
                    mon.append(f'{w}x{w} icon of a SECOND load of the same image differs from the decoding (the first load\'s arrays had '
                               f'been edited by the caller)')
        except Exception as e:      # noqa
            mon.append(f'second load of the same SMDH raised {exc_name(e)}')
        return real, model, mon

    def run_title_raw(self, case, rng, drv):
        from pyctr.type.smdh import AppTitle
        raw = bytearray(0x200)
        for off, width in ((0, 0x80), (0x80, 0x100), (0x180, 0x80)):
            mode = rng.pick(['text', 'text', 'garbage', 'surrogate', 'leading-nul', 'full'])
            if mode == 'text':
                raw[off:off + width] = enc_field(gen_text(rng, width // 2), width)
            elif mode == 'garbage':
                raw[off:off + width] = rng.rbytes(width)
            elif mode == 'surrogate':
                raw[off:off + width] = enc_field(gen_text(rng, width // 2 - 2), width)
                p = off + 2 * rng.randrange(width // 2)
                raw[p:p + 2] = rng.pick([0xD800, 0xDBFF, 0xDC00, 0xDFFF]).to_bytes(2, 'little')
            elif mode == 'leading-nul':
                raw[off:off + width] = (b'\0\0' + enc_field(gen_text(rng, width // 2 - 1), width))[:width]
            else:
                raw[off:off + width] = enc_field('x' * (width // 2), width)
        raw = bytes(raw)
        try:
            t = AppTitle.from_bytes(raw)
            u = lambda z: (z.encode('utf-16le').hex() or '-')
            real = f'ok {u(t.short_desc)} {u(t.long_desc)} {u(t.publisher)} {bytes(t).hex()}'
        except Exception as e:      # noqa
            real = 'e:' + exc_name(e)
        return real, drv.ask(sexp(['apptitle', raw])), []

    def seed_ser(self, db):
        return len(db).to_bytes(4, 'little') + bytes(12) + b''.join(k.to_bytes(8, 'little') + v + bytes(8) for k, v in db.items())

    def run_seeddb(self, case, rng, drv):
        import pyctr.crypto.seeddb as sd
        sd._seeds.clear()
        db = {}
        # mostly small databases; sometimes sizes around powers of two (whatever is written in batches has its boundaries there)
        target = rng.pick([rng.randint(0, 8)] * 6 + [255, 256, 257, 512])
        while len(db) < target:
            db[rng.pick([rng.getrandbits(64), 0x0004000000000000 | rng.getrandbits(24), 0, 2 ** 64 - 1])] = rng.rbytes(16)
        mon = []
        for k, v in db.items():
            how = rng.pick(['int', 'hex', 'bytes'])
            sd.add_seed(k if how == 'int' else (f'{k:016x}' if how == 'hex' else k.to_bytes(8, 'little')), v if rng.chance(0.5) else v.hex())
        out = io.BytesIO()
        sd.save_seeddb(out)
        img = out.getvalue()
        if img != self.seed_ser(db):
            mon.append('save_seeddb output differs from the documented layout')
        sd._seeds.clear()
        sd.load_seeddb(io.BytesIO(img))
        if dict(sd.get_all_seeds()) != db or list(sd.get_all_seeds()) != list(db):
            mon.append('load(save(db)) != db')
        out2 = io.BytesIO()
        sd.save_seeddb(out2)
        if out2.getvalue() != img:
            mon.append('save(load(image)) != image for a canonical image')
        real = 'ok ' + ','.join(f'{k}:{v.hex() or "-"}' for k, v in sd.get_all_seeds().items()) + ' ' + out2.getvalue().hex()
        sd._seeds.clear()
        return real, drv.ask(sexp(['seeddb', img])), mon

    def run_seeddb_raw(self, case, rng, drv):
        import pyctr.crypto.seeddb as sd
        sd._seeds.clear()
        n = rng.randint(0, 6)
        ids = [rng.pick([1, 2, 3, rng.getrandbits(64)]) for _ in range(n)]           # duplicates on purpose
        body = b''.join(i.to_bytes(8, 'little') + rng.rbytes(16) + rng.rbytes(8) for i in ids)
        count = rng.pick([n, n, max(n - 1, 0), n + 1, n + 3])
        img = count.to_bytes(4, 'little') + rng.rbytes(12) + body[:rng.pick([len(body), len(body), max(len(body) - 5, 0)])]
        try:
            sd.load_seeddb(io.BytesIO(img))
            out = io.BytesIO()
            sd.save_seeddb(out)
            real = 'ok ' + ','.join(f'{k}:{v.hex() or "-"}' for k, v in sd.get_all_seeds().items()) + ' ' + out.getvalue().hex()
        except Exception as e:      # noqa
            real = 'e:' + exc_name(e)
        sd._seeds.clear()
        return real, drv.ask(sexp(['seeddb', img])), []

    def cfg_build(self, blocks):
        """independent serialiser of the documented layout"""
        n = len(blocks)
        entries = b''
        off = 0x8000
        datas = b''
        for bid, flags, data in blocks:
            if len(data) > 4:
                off -= len(data)
                entries += struct.pack('<IIHH', bid, off, len(data), flags)
                datas = data + datas
            else:
                entries += struct.pack('<I', bid) + data.ljust(4, b'\0') + struct.pack('<HH', len(data), flags)
        hdr = struct.pack('<HH', n, off) + entries
        return hdr + bytes(0x8000 - len(hdr) - len(datas)) + datas

    def run_cfg(self, case, rng, drv):
        from pyctr.type.config.save import ConfigSaveReader
        kb = known_blocks()
        ids = rng.sample(sorted(kb), rng.randint(0, min(len(kb), rng.pick([3, 10, 40, 65]))))
        blocks = [(i, kb[i]['flags'], rng.rbytes(kb[i]['size'])) for i in ids]
        c = ConfigSaveReader()
        mon = []
        for bid, fl, data in blocks:
            c.set_block(bid, data, fl if rng.chance(0.5) else None)
        stored = [(bid, c.blocks[bid].flags, c.blocks[bid].data) for bid in c.blocks]
        try:
            raw = c.to_bytes()
            real = 'ok ' + raw.hex()
        except Exception as e:      # noqa
            raw = None
            real = 'e:' + exc_name(e)
        model = drv.ask(sexp(['cfg-build', [[b, f, d] for b, f, d in stored]]))
        if raw is not None:
            if raw != self.cfg_build(stored):
                mon.append('to_bytes differs from the documented layout (descending data, entries in order)')
            try:
                back = ConfigSaveReader.load(io.BytesIO(raw))
                got = [(bid, b.flags, b.data) for bid, b in back.blocks.items()]
                if got != stored:
                    mon.append('load(to_bytes(save)) != save')
                elif back.to_bytes() != raw:
                    mon.append('to_bytes(load(image)) != image for a canonical image')
            except Exception as e:      # noqa
                mon.append(f'load rejected its own to_bytes output: {exc_name(e)}')
            # the object lives on: some blocks get other data of the same size and flags (inline 4-byte blocks and out-of-line ones),
            # possibly blocks are added, and the save is serialised AGAIN - the second image must be the image of the second value
            if stored and not mon:
                for bid, fl, data in rng.sample(stored, min(len(stored), rng.randint(1, 3))):
                    c.set_block(bid, rng.rbytes(len(data)), fl if rng.chance(0.5) else None)
                if rng.chance(0.3):
                    extra = [i for i in sorted(kb) if i not in c.blocks]
                    if extra:
                        i = rng.pick(extra)
                        c.set_block(i, rng.rbytes(kb[i]['size']), kb[i]['flags'])
                stored2 = [(bid, c.blocks[bid].flags, c.blocks[bid].data) for bid in c.blocks]
                try:
                    raw2 = c.to_bytes()
                    real += ' second ' + hashlib.sha256(raw2).hexdigest()
                    got2 = [(bid, b.flags, b.data) for bid, b in ConfigSaveReader.load(io.BytesIO(raw2)).blocks.items()]
                    if raw2 != self.cfg_build(stored2) or got2 != stored2:
                        mon.append('after editing blocks in place, the second to_bytes() is not the image of the edited save '
                                   '(load(to_bytes(v2)) != v2)')
                except Exception as e:      # noqa
                    real += ' second e:' + exc_name(e)
                    mon.append(f'second to_bytes / load raised {exc_name(e)}')
                m2 = drv.ask(sexp(['cfg-build', [[b, f, d] for b, f, d in stored2]]))
                model += ' second ' + (hashlib.sha256(bytes.fromhex(m2[3:])).hexdigest() if m2.startswith('ok ') else m2)
        return real, model, mon

    def run_cfg_typed(self, case, rng, drv):
        """the typed accessors of ConfigSaveBlockParser (username, RTC offset, system model) and set_block with default flags,
        as an operation sequence on one save; every setter is followed by its getter and the save is serialised and re-loaded"""
        from pyctr.type.config.blocks import ConfigSaveBlockParser
        from pyctr.type.config.save import ConfigSaveReader
        kb = known_blocks()
        pool = ['a', 'Z', '0', ' ', '\u00e9', '\u3000', '\u2500', '\u0100', '\u3042', '\uff21', '\U00010000', '\U0001f600', 'e\u0301', '\u00ff', '\u0001']
        # ANOTHER fresh save lives in the same process and has the typed setters used on it before this one is made and again after
        # this one's operations: two saves are two values, whatever one of them is given must not show up in the other
        other = po = other_img = None
        if rng.chance(0.5):
            other = ConfigSaveReader()
            po = ConfigSaveBlockParser(other)
            try:
                po.system_model = 4
                po.username = 'other'
                po.user_time_offset = 0x1122334455
                other_img = other.to_bytes()
            except Exception:  # noqa
                other = None
        save = ConfigSaveReader()
        p = ConfigSaveBlockParser(save)
        ops, outs, mon = [], [], []

        def do(fn):
            try:
                r = fn()
                return 'ok' if r is None else 'ok:' + r
            except Exception as e:      # noqa
                return 'e:' + exc_name(e)
        first = True
        for _ in range(rng.randint(1, 8)):
            k = rng.pick(['user', 'user', 'time', 'model', 'model', 'set', 'get', 'roundtrip', 'roundtrip'])
            if first and rng.chance(0.3):
                k = 'set'         # the save already holds the typed blocks with whatever bytes an earlier tool or console put there
            first = False
            if k == 'user':
                units = rng.pick([0, 1, 3, 9, 10, 13, 14, 15])
                v = ''
                while len(v.encode('utf-16le')) // 2 < units:
                    v += rng.pick(pool)
                if rng.chance(0.15):
                    v = v[:2] + '\0' + v[2:]
                ops.append(['user-set', v.encode('utf-16le')])
                outs.append(do(lambda: setattr(p, 'username', v)))
                ops.append(['user-get'])
                outs.append(do(lambda: (p.username.encode('utf-16le').hex() or '-')))
                if outs[-2] == 'ok' and '\0' not in v and outs[-1] != 'ok:' + (v.encode('utf-16le').hex() or '-'):
                    mon.append(f'username set to {v!r} reads back as {outs[-1]}')
            elif k == 'time':
                v = rng.pick([0, 1, 0xFFFFFFFF, 1 << 63, (1 << 64) - 1, 1 << 64, -1, rng.getrandbits(64)])
                ops.append(['time-set', v])
                outs.append(do(lambda: setattr(p, 'user_time_offset', v)))
                ops.append(['time-get'])
                outs.append(do(lambda: str(p.user_time_offset)))
                if outs[-2] == 'ok' and outs[-1] != f'ok:{v}':
                    mon.append(f'user_time_offset set to {v} reads back as {outs[-1]}')
            elif k == 'model':
                v = rng.pick([0, 1, 2, 3, 4, 5, 5, 6, 255, 256, -1])
                ops.append(['model-set', v])
                outs.append(do(lambda: setattr(p, 'system_model', v)))
                ops.append(['model-get'])
                outs.append(do(lambda: str(int(p.system_model))))
                if outs[-2] == 'ok' and 0 <= v <= 5 and outs[-1] != f'ok:{v}':
                    mon.append(f'system_model set to {v} reads back as {outs[-1]}')
            elif k == 'set':
                bid = rng.pick(sorted(kb) + [0x000A0000, 0x00030001, 0x000F0004, 0x12345678]) if rng.chance(0.5) else \
                    rng.pick([0x000A0000, 0x00030001, 0x000F0004])        # the blocks behind the typed accessors, with ANY raw bytes
                size = kb[bid]['size'] if bid in kb else 4
                if rng.chance(0.1):
                    size += 1
                data = rng.rbytes(size)
                fl = rng.pick([None, None, kb[bid]['flags'] if bid in kb else 0xC, 0xE, 0xC, 0x8, 0x3])
                ops.append(['set', bid, data, 'none' if fl is None else fl])
                outs.append(do(lambda: save.set_block(bid, data, fl)))
            elif k == 'get':
                g = rng.pick(['user-get', 'time-get', 'model-get'])
                ops.append([g])
                outs.append(do({'user-get': lambda: (p.username.encode('utf-16le').hex() or '-'), 'time-get': lambda: str(p.user_time_offset),
                                'model-get': lambda: str(int(p.system_model))}[g]))
            else:
                ops.append(['roundtrip'])
                stored = [(bid, b.flags, bytes(b.data)) for bid, b in save.blocks.items()]
                try:
                    raw = save.to_bytes()
                except Exception as e:      # noqa
                    outs.append('e:' + exc_name(e))
                    continue
                try:
                    back = ConfigSaveReader.load(io.BytesIO(raw))
                    got = [(bid, b.flags, bytes(b.data)) for bid, b in back.blocks.items()]
                    outs.append('same' if got == stored else 'differs:' + ','.join(f'{b}:{f}:{d.hex() or "-"}' for b, f, d in got))
                    if got != stored:
                        mon.append('load(to_bytes(save)) != save')
                except Exception as e:      # noqa
                    outs.append('load-e:' + exc_name(e))
                    mon.append(f'a save built through set_block / the typed setters serialises to an image its own loader rejects: {exc_name(e)}')
        if other is not None:
            try:
                if other.to_bytes() != other_img:
                    mon.append('operations on one config save changed ANOTHER save object made earlier in this process')
                po.system_model = 1
                po.username = 'x'
                po.user_time_offset = 7
            except Exception as e:      # noqa
                mon.append(f'the other save raised {exc_name(e)}')
        real = 'ok ' + ';'.join(outs) + ' ' + ','.join(f'{bid}:{b.flags}:{bytes(b.data).hex() or "-"}' for bid, b in save.blocks.items())
        return real, drv.ask(sexp(['cfg-ops', ops])), mon

    def run_cfg_raw(self, case, rng, drv):
        from pyctr.type.config.save import ConfigSaveReader
        kb = known_blocks()
        ids = rng.sample(sorted(kb), rng.randint(0, 12))
        blocks = [(i, kb[i]['flags'], rng.rbytes(kb[i]['size'])) for i in ids]
        raw = bytearray(self.cfg_build(blocks))
        fault = rng.pick([None, None, 'count', 'off', 'entry', 'size'])
        if fault == 'count':
            raw[0:2] = rng.pick([len(ids) + 1, 0xFFFF, max(len(ids) - 1, 0)]).to_bytes(2, 'little')
        elif fault == 'off':
            raw[2:4] = rng.getrandbits(16).to_bytes(2, 'little')
        elif fault == 'entry' and ids:
            p = 4 + 12 * rng.randrange(len(ids)) + rng.randrange(12)
            raw[p] ^= 1 << rng.randrange(8)
        elif fault == 'size':
            raw = raw[:rng.pick([0, 0x7FFF, 0x100])]
        raw = bytes(raw)
        try:
            c = ConfigSaveReader.load(io.BytesIO(raw))
            try:
                h = hashlib.sha256(c.to_bytes()).hexdigest()
            except Exception as e:      # noqa
                h = 'e:' + exc_name(e)
            real = 'ok ' + ','.join(f'{bid}:{b.flags}:{b.data.hex() or "-"}' for bid, b in c.blocks.items()) + ' ' + h
        except Exception as e:      # noqa
            real = 'e:' + exc_name(e)
        return real, drv.ask(sexp(['cfg-load', raw])), []

    def run_desc(self, case, rng, drv):
        from pyctr.type.save.partdesc.difi import DIFI
        from pyctr.type.save.partdesc.ivfc import IVFC
        from pyctr.type.save.partdesc.dpfs import DPFS
        kind = rng.pick(['difi', 'ivfc', 'dpfs'])
        cls, size, magic = {'difi': (DIFI, 0x44, b'DIFI\0\0\1\0'), 'ivfc': (IVFC, 0x78, b'IVFC\0\0\2\0'), 'dpfs': (DPFS, 0x50, b'DPFS\0\0\1\0')}[kind]
        raw = bytearray(magic + rng.rbytes(size - 8))
        lvl_off = {'difi': [], 'ivfc': [0x10 + 0x18 * i for i in range(4)], 'dpfs': [8 + 0x18 * i for i in range(3)]}[kind]
        canonical = rng.chance(0.7)
        for o in lvl_off:
            raw[o + 0x10:o + 0x14] = rng.pick([0, 4, 9, 12, 31]).to_bytes(4, 'little')
            if canonical:
                raw[o + 0x14:o + 0x18] = bytes(4)
        if kind == 'difi' and canonical:
            raw[0x38] = rng.getrandbits(1)
            raw[0x3A:0x3C] = bytes(2)
        if rng.chance(0.1):
            raw[rng.randrange(8)] ^= 0x20
        if rng.chance(0.1):
            raw = raw[:-1]
        raw = bytes(raw)
        mon = []
        try:
            v = cls.from_bytes(raw)
            out = v.to_bytes()
            real = 'ok ' + out.hex()
            if canonical and out != raw:
                mon.append(f'{kind}: to_bytes(from_bytes(image)) != image for a canonical image')
            if cls.from_bytes(out) != v:
                mon.append(f'{kind}: from_bytes(to_bytes(value)) != value')
        except Exception as e:      # noqa
            real = 'e:' + exc_name(e)
        return real, drv.ask(sexp(['desc-rt', kind, raw])), mon

    def run_ncsd(self, case, rng, drv):
        from pyctr.type.nand import NANDNCSDHeader
        hdr = bytearray(rng.rbytes(0x200))
        hdr[0x100:0x104] = b'NCSD'
        hdr[0x104:0x108] = rng.pick([0x200000, 0x280000]).to_bytes(4, 'little')
        hdr[0x108:0x110] = bytes(8)
        used = [rng.chance(0.6) for _ in range(8)]
        types = [(1, 1), (1, 2), (1, 3), (3, 2), (4, 2), (3, 2), (3, 2), (2, 9)]
        rng.shuffle(types)
        seen = set()
        for i in range(8):
            fs, cr = types[i]
            key = ('twl' if (fs, cr) == (1, 1) else 'ctr' if fs == 1 and cr in (2, 3) else 'agb' if fs == 4 else None)
            if not used[i] or (key and key in seen):
                hdr[0x110 + i] = 0
                hdr[0x118 + i] = 0
                hdr[0x120 + 8 * i:0x128 + 8 * i] = bytes(8)
            else:
                if key:
                    seen.add(key)
                hdr[0x110 + i] = fs
                hdr[0x118 + i] = cr
        hdr = bytes(hdr)
        mon = []
        try:
            h = NANDNCSDHeader.from_bytes(hdr)
            out = bytes(h)
            real = 'ok ' + out.hex()
            if out != hdr:
                mon.append('bytes(from_bytes(header)) != header')
            if NANDNCSDHeader.from_bytes(out) != h:
                mon.append('from_bytes(bytes(value)) != value')
        except Exception as e:      # noqa
            real = 'e:' + exc_name(e)
        return real, drv.ask(sexp(['nand-hdr', hdr])), mon

    def run_lzss(self, case, rng, drv):
        from pyctr.type.exefs import decompress_code
        x = gen_code(rng)
        pad = rng.pick([0, 0, 1, 3])
        comp = blz_compress(x, pad=pad, want_choice=True)
        mon = []
        if comp is None:
            return 'skip', 'skip', []
        comp, k, used = comp
        # tie to the theorem C20_lzss_roundtrip: the compressor's choice (head, tokens, padding) laid out by the Lean encoder is
        # this very image, and it satisfies the theorem's decidable hypothesis `validB` - so the theorem speaks about this input
        groups = tuple(tuple(('l', t[1]) if t[0] == 'L' else ('r', t[1] - 3, t[2] - 3) for t in used[g:g + 8]) for g in range(0, len(used), 8))
        enc = drv.ask(sexp(['lzss-enc', x[:k], groups, pad])).split(' ')
        if len(enc) != 3 or enc[0] != 'valid=1':
            mon.append(f'the reference compressor output does not meet the hypothesis of C20_lzss_roundtrip: {enc[0][:40]}')
        elif enc[1].replace('-', '') != comp.hex():
            mon.append('the Lean encoder lays the same tokens out differently from the reference compressor (theorem not about this image)')
        elif enc[2].replace('-', '') != x.hex():
            mon.append('the tokens of the reference compressor do not stand for the original data in the Lean model')
        # the model's own (certifying) compressor, theorem C20_lzss_compress: pyctr must invert it as well
        lc = drv.ask(sexp(['lzss-compress', x, pad]))
        if lc.startswith('ok '):
            limg = bytes.fromhex(lc[3:].replace('-', ''))
            self.lz_same = getattr(self, 'lz_same', 0) + int(limg == comp)
            try:
                if decompress_code(limg) != x:
                    mon.append(f'decompress(compress(x)) != x for the image of the Lean reference compressor (|x|={len(x)})')
            except Exception as e:      # noqa
                mon.append(f'decompress raised {exc_name(e)} on the image of the Lean reference compressor')
        try:
            d = decompress_code(comp)
            real = 'ok ' + (d.hex() or '-')
            if d != x:
                k = next((i for i in range(min(len(d), len(x))) if d[i] != x[i]), min(len(d), len(x)))
                mon.append(f'decompress(compress(x)) != x (|x|={len(x)}, first difference at {k})')
        except Exception as e:      # noqa
            real = 'e:' + exc_name(e)
            mon.append(f'decompress raised {exc_name(e)} on the reference compressor output')
        return real, drv.ask(sexp(['lzss', comp])), mon

    def run_lzss_bad(self, case, rng, drv):
        from pyctr.type.exefs import decompress_code
        x = gen_code(rng)
        comp = blz_compress(x) or (x + bytes(8))
        comp = bytearray(comp)
        for _ in range(rng.randint(1, 3)):
            if comp:
                p = rng.pick([len(comp) - 1 - rng.randrange(min(8, len(comp))), rng.randrange(len(comp))])
                comp[p] = rng.getrandbits(8)
        comp = bytes(comp[:rng.pick([len(comp), len(comp), rng.randrange(len(comp) + 1)])])
        try:
            real = 'ok ' + (decompress_code(comp).hex() or '-')
        except Exception as e:      # noqa
            real = 'e:' + exc_name(e)
        return real, drv.ask(sexp(['lzss', comp])), []

    def shrink(self, case):
        return []

    def neighbours(self, case, rng):
        for _ in range(40):
            yield {'kind': case['kind'], 'seed': rng.getrandbits(32)} if 'seed' in case else {'kind': 'bits16', 'w': rng.getrandbits(16)}


CHECK = C20()
