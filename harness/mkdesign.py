"""Regenerates the tables between the GENERATED markers of DESIGN.md from the artefacts themselves
(MANIFEST.json, lean/Props/*.lean, known_findings.txt, seeded/*/meta.json), so that the document cannot drift from them."""
import glob
import json
import os
import re

ROOT = os.path.dirname(os.path.dirname(os.path.abspath(__file__)))


def theorems(pid):
    p = os.path.join(ROOT, 'lean', 'Props', pid + '.lean')
    return re.findall(r'^theorem ([A-Za-z0-9_]+)', open(p).read(), re.M) if os.path.exists(p) else []


def main():
    man = json.load(open(os.path.join(ROOT, 'MANIFEST.json')))
    kf = [l.rstrip('\n') for l in open(os.path.join(ROOT, 'known_findings.txt')) if l.startswith(('fixed:', 'finding:'))]
    seeds = {}
    for d in sorted(glob.glob(os.path.join(ROOT, 'seeded', '*'))):
        mp = os.path.join(d, 'meta.json')
        if os.path.exists(mp):
            m = json.load(open(mp))
            seeds.setdefault(m['property'], []).append((os.path.basename(d), m))
    out = []
    out.append('### 11.1 Per property: level claimed, theorems, repaired defects / findings, seeded changes\n')
    for c in man['checks']:
        pid = c['property_id']
        out.append(f'#### {pid}\n')
        out.append(f'*Level*: {c["level_claimed"]["category"]} — {c["level_claimed"]["text"]}\n')
        ths = theorems(pid)
        out.append(f'*Theorems audited on every run* ({len(ths)}): ' + ', '.join(f'`{t}`' for t in ths) + '\n')
        mine = [l for l in kf if f'property={pid} ' in l]
        if mine:
            out.append('*Defects of the unchanged code exposed by this check*:\n')
            for l in mine:
                kind, rest = l.split(':', 1)
                rest = rest.strip().split(' ', 1)[1]
                out.append(f'* **{kind}** {rest}')
            out.append('')
        if pid in seeds:
            out.append('*Seeded changes (sub-agent written, 47 tests still pass) and what caught them*:\n')
            for name, m in seeds[pid]:
                runs = '; '.join(x.strip() for x in m.get('checks_run', []) if x.strip())
                need = ' '.join(m.get('needs_to_manifest', '').split())[:420]
                out.append(f'* `seeded/{name}` — {need} → {runs[:260]}')
            out.append('')
    text = '\n'.join(out)
    p = os.path.join(ROOT, 'DESIGN.md')
    s = open(p).read()
    a, b = '<!-- BEGIN GENERATED (harness/mkdesign.py) -->', '<!-- END GENERATED -->'
    i, j = s.index(a) + len(a), s.index(b)
    open(p, 'w').write(s[:i] + '\n' + text + '\n' + s[j:])


if __name__ == '__main__':
    main()
