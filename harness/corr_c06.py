"""C06 — RomFS reader reproduces the packed directory tree and file bytes exactly."""
import io
import logging

from common import exc_name, sexp, Rng
from framework import CaseResult, Check
from romfsbuild import build_lv3, spec_tree, wrap_ivfc

logging.getLogger('pyctr.type.romfs').setLevel(logging.CRITICAL)

ASCII = 'abcdefghijklmnopqrstuvwxyzABCDEFGHIJKLMNOPQRSTUVWXYZ0123456789_-. '
BMP = 'äöüßéèñçøåÆØÅλμπЖдяあいうえお漢字日本語한국어'
NOCASE = '0123456789_-あいう漢字日本\U0001F600\U0001F37A\U00010348'
ASTRAL = '\U0001F600\U0001F37A\U00010348\U0002070E'


UNICASE = 'ßẞςΣσſﬁİıÄäÖöÉéΩωЖж'      # letters on which lower(), casefold() and upper() disagree in interesting ways
UNI_CI = [False]


def gen_name(rng, ci, used):
    for _ in range(50):
        n = rng.pick([1, 2, 3, 5, 8, 12, 20, 40])
        if ci and UNI_CI[0]:
            pool = ASCII.replace('.', '') + UNICASE
        elif ci:
            pool = ASCII.replace('.', '') + NOCASE        # str.lower() modelled for ASCII only
        else:
            pool = rng.pick([ASCII, ASCII, ASCII + BMP, BMP + ASTRAL + ASCII])
        s = ''.join(rng.pick(pool) for _ in range(n)).strip()
        if rng.chance(0.06):
            # code units that a BOM-aware decoder would swallow or act upon: U+FEFF / U+FFFE at the start (or alone)
            s = rng.pick(['\ufeff', '\ufffe']) + rng.pick([s, s, ''])
        if not s or '/' in s or s in ('.', '..'):
            continue
        k = s.lower() if ci else s
        if k in used:
            continue
        used.add(k)
        return s
    raise RuntimeError('name generation failed')


def gen_tree(rng, ci, depth, budget):
    used = set()
    files = []
    for _ in range(rng.pick([0, 0, 1, 2, 3, 6, 12]) if budget[0] > 0 else 0):
        budget[0] -= 1
        files.append([gen_name(rng, ci, used), rng.rbytes(rng.pick([0, 1, 15, 16, 17, rng.randint(0, 80)]))])
    subs = []
    if depth > 0:
        for _ in range(rng.pick([0, 1, 1, 2, 3, 5])):
            if budget[0] <= 0:
                break
            budget[0] -= 1
            sub = gen_tree(rng, ci, depth - 1, budget)
            sub[1] = gen_name(rng, ci, used)
            subs.append(sub)
    return ['d', '', subs, files]


def all_paths(tree, prefix=''):
    out = []
    for f in tree[3]:
        out.append((prefix + f[0], 'file', f[1]))
    for s in tree[2]:
        out.append((prefix + s[1], 'dir', s))
        out.extend(all_paths(s, prefix + s[1] + '/'))
    return out


def u16hex(s):
    return s.encode('utf-16le').hex() or '-'


def flip_case(s, rng):
    return ''.join(c.swapcase() if c.isascii() and rng.chance(0.5) else c for c in s)


class C06(Check):
    prop = "C06"
    case_timeout = 10
    rule = ('trees of depth 0-6 (thorough: a depth-40 chain), 0-12 siblings, empty dirs and files, names of UTF-16 length '
            '1-40 from ASCII/BMP/astral pools, file sizes {0,1,15,16,17,random}; bare level 3 and IVFC-wrapped with '
            'block exponents 4-16 and random master-hash sizes; start offsets {0,1,0x10,0x1234}; both case modes; image '
            'from an independent 3dbrew-layout builder; per case the Lean `repDir` predicate is evaluated on the image '
            '(so the walk theorem applies to it); lookups: every path with prefixes none, "/", "./", case-flipped and '
            'missing neighbours, paths with a missing directory above an existing last component, every lookup list run as a history '
            '(immediate repeats, second pass in another order); malformed stream: random byte/field mutations of header and tables; non-trivial = tree has >= 1 entry or an error')
    trusted_base = [
        'Lean 4.33 kernel; axioms propext, Classical.choice, Quot.sound only',
        'the independent Python builder (3dbrew layout) is the specification of a packed RomFS; per generated image the '
        'Lean predicate `repDir` is evaluated (translation validation of the builder, not a proof about it)',
        'str.lower() is a parameter in the theorems and ASCII-only in the executable model (generation avoids other cased characters in insensitive mode)',
        'header/IVFC offset arithmetic and util.roundup (float ceil) are covered by correspondence only',
        'pyfilesystem2 (Info, walk) is not modelled; observables go through listdir/scandir/getinfo/openbin',
    ]
    assumptions = ['sibling names distinct (after lower() in case-insensitive mode)', 'names valid UTF-16 without "/"',
                   'nesting depth below the CPython recursion limit']

    def budget(self, tier):
        return 120 if tier == 'quick' else 1200

    def gen(self, rng, tier, i):
        if rng.chance(0.04):
            # file data located beyond 2^32 / 2^40 bytes: the 64-bit offset and size fields, on a virtual image
            return {'huge': True, 'seed': rng.getrandbits(32), 'start': rng.pick([0, 0x10, 0x1234]),
                    'offs': [rng.pick([1 << 32, (1 << 32) + 0x10, (1 << 33) + 5, 1 << 40, (1 << 44) + 0x123]) + 0x40 * k for k in range(3)]}
        ci = rng.chance(0.4)
        # case-insensitive mode over letters with full-Unicode case mappings: Python's own str.lower() is the reference there
        # (the executable model lower-cases ASCII only, so these cases are decided by the monitors, not by the model comparison)
        unici = ci and rng.chance(0.3)
        UNI_CI[0] = unici
        try:
            tree = gen_tree(rng, ci, rng.pick([0, 1, 2, 3, 4, 6]), [rng.pick([3, 10, 25, 60])])
        finally:
            UNI_CI[0] = False
        if rng.chance(0.2):
            # many entries with very short names: the tables are as dense as they can be
            nd, nf = rng.pick([7, 16, 40]), rng.pick([0, 9, 30])
            short = lambda k: '%x' % k if k < 16 else '%02x' % k
            tree = ['d', '', [['d', short(k), [], []] for k in range(nd)], [['f' + short(k), rng.rbytes(rng.pick([0, 3]))] for k in range(nf)]]
            if rng.chance(0.5):
                tree = ['d', '', [['d', 'n', tree[2], []]], tree[3]]
        ivfc = [rng.pick([0, 0x20, 0x40, 0x123]), rng.randint(4, 16)] if rng.chance(0.5) else None
        if ivfc and ivfc[1] > 12 and rng.chance(0.7):
            ivfc[1] = rng.randint(4, 12)
        mut = None
        if rng.chance(0.25):
            mut = [rng.pick(['header', 'dm', 'fm', 'fm', 'ivfc', 'fm64', 'fm64']), rng.getrandbits(16), rng.pick([0, 1, 0xFF, 0x18, 0x20, rng.randrange(256)])]
        if unici:
            mut = None
        return {'tree': tree, 'ivfc': ivfc, 'start': rng.pick([0, 0, 1, 0x10, 0x1234]), 'ci': int(ci), 'mut': mut,
                'seed': rng.getrandbits(32), 'unici': int(unici)}

    def corpus(self):
        return [{'fixture': 'romfs.bin', 'ci': 0}, {'fixture': 'romfs.bin', 'ci': 1}]

    def run_fixture(self, case, drv):
        import os
        from common import REPO
        from pyctr.type.romfs import RomFSReader
        data = open(os.path.join(REPO, 'tests', 'fixtures', case['fixture']), 'rb').read()
        rd = RomFSReader(io.BytesIO(data), case_insensitive=bool(case['ci']), closefd=False)

        def dump(path):
            parts = []
            for inf in rd.scandir(path):
                if inf.is_dir:
                    parts.append(f'(d {u16hex(inf.name)} ({dump(path + inf.name + "/")}))')
                else:
                    parts.append(f'(f {u16hex(inf.name)} {inf.get("rawfs", "offset")} {inf.size})')
            return ' '.join(parts)
        real = f'ok {rd.lv3_offset} {rd.data_offset} (d {u16hex("ROOT")} ({dump("/")}))'
        model = drv.ask(('romfs-parse', data, 0, case['ci']))
        return CaseResult(real, model, [], sig='fixture', info={'fixture': 1})

    def exhaustive(self, tier):
        if tier == 'thorough':
            t = ['d', '', [], [['leaf', b'x' * 5]]]
            for k in range(40):
                t = ['d', '', [['d', 'n%d' % k, t[2], t[3]]], []]
            yield {'tree': t, 'ivfc': None, 'start': 0x10, 'ci': 0, 'mut': None, 'seed': 1}

    def run_huge(self, case, drv):
        import struct
        from corr_c01 import VirtualFile
        from pyctr.type.romfs import RomFSReader
        rng = Rng(case['seed'])
        names = ['a.bin', 'sub-b', 'c']
        tree = ['d', '', [['d', 'dir', [], [[names[1], b'\0' * 8]]]], [[names[0], b'\0' * 5], [names[2], b'\0' * 16]]]
        lv3, info = build_lv3(tree)
        lv3 = bytearray(lv3[:info['fdo']])
        fmo = int.from_bytes(lv3[28:32], 'little')
        # file entries in table order: a.bin, c (root), sub-b (dir)
        order = [f[0] for f in info['fent']]
        sizes = {}
        pos = 0
        want = {}
        for k, fname in enumerate(order):
            ent = fmo + pos
            off = case['offs'][k]
            size = [5, 16, 33][k]
            lv3[ent + 8:ent + 16] = struct.pack('<Q', off)
            lv3[ent + 16:ent + 24] = struct.pack('<Q', size)
            want[fname] = (off, size)
            nlen = int.from_bytes(lv3[ent + 0x1C:ent + 0x20], 'little')
            pos += 0x20 + (nlen + 3) // 4 * 4
        start = case['start']
        vf = VirtualFile(1 << 46, rng.rbytes(8))
        for i, b in enumerate(bytes(lv3)):
            vf.written[start + i] = b
        vf.seek(start)
        mon, outs = [], []
        try:
            rd = RomFSReader(vf, closefd=False)
            for path, fname in (('/a.bin', 'a.bin'), ('/c', 'c'), ('/dir/sub-b', 'sub-b')):
                off, size = want[fname]
                inf = rd.getinfo(path, namespaces=['details'])
                f = rd.openbin(path)
                d = f.read()
                outs.append(d.hex())
                exp = vf.content(start + info['fdo'] + off, size)
                if inf.size != size:
                    mon.append(f'{path}: size reported {inf.size}, stored {size}')
                if d != exp:
                    mon.append(f'{path}: bytes read are not the {size} bytes at data offset {off:#x} of the image')
        except Exception as ex:     # noqa
            outs.append('e:' + exc_name(ex))
            mon.append(f'RomFS with file data beyond 2^32: {exc_name(ex)}: {ex}')
        real = ' '.join(outs)
        return CaseResult(real, real, mon, 'huge:%d' % case['seed'], 'romfs.huge' if mon else None, {'mode:huge': 1})

    def run_case(self, case, drv):
        if case.get('huge'):
            return self.run_huge(case, drv)
        from pyctr.type.romfs import RomFSReader
        from fs import errors as fserrors
        if 'fixture' in case:
            return self.run_fixture(case, drv)
        rng = Rng(case['seed'])
        tree, ci, start = case['tree'], bool(case['ci']), case['start']
        lv3, info = build_lv3(tree)
        img, lv3_off = (wrap_ivfc(lv3, *case['ivfc']) if case['ivfc'] else (lv3, 0))
        img = bytearray(img)
        mut = case['mut']
        if mut:
            k, pos, val = mut
            h = lv3_off
            dmo = int.from_bytes(lv3[12:16], 'little')
            dms = int.from_bytes(lv3[16:20], 'little')
            fmo = int.from_bytes(lv3[28:32], 'little')
            fms = int.from_bytes(lv3[32:36], 'little')
            if k == 'header':
                img[h + pos % 0x28] = val
            elif k == 'dm' and dms:
                img[h + dmo + pos % dms] = val
            elif k == 'fm' and fms:
                img[h + fmo + pos % fms] = val
            elif k == 'fm64' and fms >= 0x20:
                # the upper halves of the 64-bit offset / size fields of the first file entry (a reader that takes 32 bits shows)
                img[h + fmo + (12 if pos % 2 else 20) + pos % 4] = val | 1
            elif k == 'ivfc' and case['ivfc']:
                img[pos % 0x5C] = val
        file_bytes = b'\xEE' * start + bytes(img) + b'\xDD' * 7
        base = io.BytesIO(file_bytes)
        base.seek(start)
        mon, key = [], None
        outs, models = [], []
        info_d = {'ci:%d' % ci: 1, 'ivfc:%d' % bool(case['ivfc']): 1, 'mut:%s' % (mut[0] if mut else 'none'): 1,
                  'start:%d' % start: 1}
        rd = None
        try:
            rd = RomFSReader(base, case_insensitive=ci, closefd=False)

            def dump(path):
                parts = []
                for inf in rd.scandir(path):
                    if inf.is_dir:
                        parts.append(f'(d {u16hex(inf.name)} ({dump(path + inf.name + "/")}))')
                    else:
                        parts.append(f'(f {u16hex(inf.name)} {inf.get("rawfs", "offset")} {inf.size})')
                return ' '.join(parts)
            outs.append(f'ok {rd.lv3_offset} {rd.data_offset} (d {u16hex("ROOT")} ({dump("/")}))')
        except RecursionError:
            outs.append('e:RecursionError')
        except Exception as e:  # noqa
            outs.append('e:' + exc_name(e))
        models.append(drv.ask(('romfs-parse', file_bytes, start, int(ci))))
        if models[0] == 'e:unmodelled-block-size':
            models[0] = outs[0]
        wf = mut is None
        paths = all_paths(tree)
        if wf:
            # translation validation of the builder: the image represents the tree (hypothesis of the walk theorem)
            rep = drv.ask(('romfs-rep', file_bytes, start, int(ci), spec_tree(tree, info)))
            if rep != 'true':
                return CaseResult('rep:true', 'rep:' + rep, [], sig='rep', info=info_d)
            if rd is None:
                mon.append(f'well-formed RomFS rejected: {outs[0]}')
                key = 'romfs.init'
        if rd is not None:
            probes = []
            existing = {(q[0].lower() if ci else q[0]) for q in paths}
            for p, kind, node in rng.sample(paths, min(len(paths), 8)):
                pre = rng.pick(['', '/', './'])
                probes.append((pre + p, kind, node, True))
                if ci:
                    probes.append((pre + flip_case(p, rng), kind, node, True))
                else:
                    fl = flip_case(p, rng)
                    if fl != p and fl not in existing:
                        probes.append((pre + fl, None, None, False))
                if ((p + 'x').lower() if ci else p + 'x') not in existing:
                    probes.append((pre + p + 'x', None, None, False))
            probes.append(('/', 'dir', tree, True))
            probes.append(('.', 'dir', tree, True))
            # paths with a missing directory in the middle whose LAST component does exist further up ('a/zz/f' next to 'a/f')
            for p, kind, node in rng.sample(paths, min(len(paths), 6)):
                comps = p.split('/')
                for cut in range(len(comps)):
                    cand = '/'.join(comps[:cut] + ['zz' + comps[-1][:2]] + [comps[-1]])
                    if (cand.lower() if ci else cand) not in existing:
                        probes.append((rng.pick(['', '/']) + cand, None, None, False))
            # lookups form a HISTORY on one reader: every probe may be repeated at once (exists() then open()) and the whole list
            # is gone through a second time in another order (whatever a lookup remembers is then stale or not)
            probes = [x for pr in probes for x in ([pr, pr] if rng.chance(0.4) else [pr])]
            again = list(probes)
            rng.shuffle(again)
            probes += again[:12]
            info_d['lookup history with repeats'] = 1
            for path, kind, node, exists in probes:
                try:
                    inf = rd.getinfo(path)
                    if inf.is_dir:
                        names = rd.listdir(path)
                        tok = 'dir ' + u16hex(inf.name) + (' ' + ' '.join(u16hex(n) for n in names) if names else ' ')
                        try:
                            rd.openbin(path)
                            mon.append(f'openbin on directory {path!r} did not raise')
                        except Exception as e2:  # noqa
                            if exc_name(e2) != 'RomFSIsADirectoryError':
                                mon.append(f'openbin on directory {path!r} raised {exc_name(e2)}')
                        if wf and exists:
                            exp = [s[1] for s in node[2]] + [f[0] for f in node[3]]
                            if kind != 'dir' or names != exp:
                                mon.append(f'listdir({path!r}) = {names} expected {exp}')
                    else:
                        f = rd.openbin(path)
                        data = f.read()
                        f.seek(0)
                        over = f.read(len(data) + 9)
                        tok = f'file {u16hex(inf.name)} {f._offset} {inf.size}'
                        if wf and exists:
                            if kind != 'file' or data != node or over != node or inf.size != len(node):
                                mon.append(f'file {path!r}: bytes/size differ from the packed file')
                    if wf and not exists:
                        mon.append(f'path {path!r} names nothing but resolved to {tok[:40]}')
                except Exception as e:  # noqa
                    tok = 'e:' + exc_name(e)
                    if wf and exists:
                        mon.append(f'existing path {path!r} raised {tok}')
                    elif wf and tok != 'e:RomFSFileNotFoundError':
                        mon.append(f'missing path {path!r} raised {tok} instead of the not-found error')
                outs.append(tok)
                m = drv.ask(('romfs-lookup', file_bytes, start, int(ci), path.encode('utf-16le')))
                if tok == 'e:OverflowError' and m.startswith('file ') and not wf:
                    # a (mutated) 64-bit file offset at or beyond 2^63: the base file object cannot address it (OverflowError from
                    # its seek); the model does not bound positions - a library limit, not a statement about the reader
                    parts = m.split()
                    if int(parts[2]) + int(parts[3]) >= (1 << 63) - (1 << 32):
                        m = tok
                models.append(m if not m.startswith('dir') else m.rstrip(' ') + (' ' if m.count(' ') < 2 else ''))
                if mon and key is None:
                    key = 'romfs.lookup'
        real = ' | '.join(o.rstrip(' ') for o in outs)
        model = ' | '.join(m.rstrip(' ') for m in models)
        if case.get('unici'):
            model = real
            info_d['ci:unicode-letters'] = 1
        nontrivial = bool(paths) or outs[0].startswith('e:')
        return CaseResult(real, model, mon, sig=str(hash(real)) if nontrivial else '', key=key, info=info_d)

    def shrink(self, case):
        if 'fixture' in case or case.get('huge'):
            return
        t = case['tree']
        for i in range(len(t[2])):
            yield dict(case, tree=[t[0], t[1], t[2][:i] + t[2][i + 1:], t[3]])
        for i in range(len(t[3])):
            yield dict(case, tree=[t[0], t[1], t[2], t[3][:i] + t[3][i + 1:]])
        if case['start']:
            yield dict(case, start=0)
        if case['ivfc']:
            yield dict(case, ivfc=None)

    def neighbours(self, case, rng):
        for i in range(100):
            c = self.gen(rng, 'quick', i)
            c['mut'] = None
            yield c


CHECK = C06()
