"""Independent RomFS (level 3, optionally IVFC-wrapped) builder following the 3dbrew layout."""
import struct

NONE = 0xFFFFFFFF


def pad4(b):
    return b + b'\0' * (-len(b) % 4)


def build_lv3(tree, rng=None, data_align=16):
    """tree = ['d', name, [subtrees], [[fname, content], ...]]; returns (lv3 bytes, info)"""
    dirs = []     # preorder: (node, parent_idx)
    files = []    # (name, content, dir_idx)

    def visit(node, parent):
        idx = len(dirs)
        dirs.append([node, parent, idx])
        for sub in node[2]:
            visit(sub, idx)

    visit(tree, 0)
    # offsets of directory entries
    doff, off = [], 0
    for node, parent, idx in dirs:
        doff.append(off)
        nm = b'' if idx == 0 else node[1].encode('utf-16le')
        off += 0x18 + len(pad4(nm))
    dm_size = off
    # files, grouped per directory in directory preorder
    foff, fdir, fent = [], [], []
    off = 0
    for di, (node, parent, idx) in enumerate(dirs):
        for fname, content in node[3]:
            foff.append(off)
            fdir.append(di)
            fent.append((fname, content))
            off += 0x20 + len(pad4(fname.encode('utf-16le')))
    fm_size = off
    # file data
    data = bytearray()
    fdata = []
    for fname, content in fent:
        data += b'\0' * (-len(data) % data_align)
        fdata.append(len(data))
        data += content
    # directory table
    child_idx = {i: [] for i in range(len(dirs))}
    for node, parent, idx in dirs[1:]:
        child_idx[parent].append(idx)
    dm = bytearray()
    for node, parent, idx in dirs:
        sibs = child_idx[parent] if idx else []
        nxt = NONE
        if idx and sibs.index(idx) + 1 < len(sibs):
            nxt = doff[sibs[sibs.index(idx) + 1]]
        first_child = doff[child_idx[idx][0]] if child_idx[idx] else NONE
        myfiles = [k for k in range(len(fent)) if fdir[k] == idx]
        first_file = foff[myfiles[0]] if myfiles else NONE
        nm = b'' if idx == 0 else node[1].encode('utf-16le')
        dm += struct.pack('<IIIIII', doff[parent], nxt, first_child, first_file, NONE, len(nm)) + pad4(nm)
    fm = bytearray()
    for k, (fname, content) in enumerate(fent):
        same = [j for j in range(len(fent)) if fdir[j] == fdir[k]]
        nxt = foff[same[same.index(k) + 1]] if same.index(k) + 1 < len(same) else NONE
        nm = fname.encode('utf-16le')
        fm += struct.pack('<IIQQII', doff[fdir[k]], nxt, fdata[k], len(content), NONE, len(nm)) + pad4(nm)
    assert len(dm) == dm_size and len(fm) == fm_size
    dh = struct.pack('<I', NONE) * 3
    fh = struct.pack('<I', NONE) * 3
    hdr_size = 0x28
    dho = hdr_size
    dmo = dho + len(dh)
    fho = dmo + len(dm)
    fmo = fho + len(fh)
    fdo = (fmo + len(fm) + 15) // 16 * 16
    hdr = struct.pack('<IIIIIIIIII', hdr_size, dho, len(dh), dmo, len(dm), fho, len(fh), fmo, len(fm), fdo)
    lv3 = hdr + dh + bytes(dm) + fh + bytes(fm)
    lv3 += b'\0' * (fdo - len(lv3)) + bytes(data)
    spec_files = {k: (fdata[k], len(fent[k][1])) for k in range(len(fent))}
    return lv3, {'fdo': fdo, 'fdata': fdata, 'fent': fent, 'fdir': fdir, 'dirs': dirs}


def wrap_ivfc(lv3, master_hash_size, block_log2, filler=b'\xA5'):
    hdr = bytearray(0x5C)
    hdr[0:4] = b'IVFC'
    hdr[4:8] = (0x10000).to_bytes(4, 'little')
    hdr[8:12] = master_hash_size.to_bytes(4, 'little')
    hdr[0x4C:0x50] = block_log2.to_bytes(4, 'little')
    bs = 1 << block_log2
    lv3_off = (0x60 + master_hash_size + bs - 1) // bs * bs
    body = bytes(hdr) + filler * (lv3_off - 0x5C)
    return body + lv3, lv3_off


def spec_tree(tree, info):
    """the tree with per-file (data offset, size) in the shape the Lean `Tree` expects"""
    counter = [0]

    def go(node):
        files = []
        idx = go.idx
        go.idx += 1
        mine = [k for k in range(len(info['fent'])) if info['fdir'][k] == idx]
        for k in mine:
            files.append((info['fent'][k][0].encode('utf-16le'), info['fdata'][k], len(info['fent'][k][1])))
        subs = [go(s) for s in node[2]]
        return ('d', node[1].encode('utf-16le') if idx else b'', tuple(subs), tuple(files))
    go.idx = 0
    return go(tree)
