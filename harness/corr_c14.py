"""C14 — SD-card files are transparently en/decrypted with the path-derived counter."""
import hashlib
import os
import shutil
import tempfile

import envsetup
from common import Rng, exc_name
from corr_c08 import scr
from filestack import ctr_xor
from framework import CaseResult, Check
from reffile import RefFile

SEG_POOLS = ['title', 'extdata', 'dbs', 'content', 'Nintendo', '00040000', '0f70c600', 'cmd', 'backup', 'Data', 'ÄÖü', 'あい漢字',
             '\U0001F600x', '00000000.app', 'save.bin', 'ticket.db', 'AbC.DeF', 'Straße', 'ΛΟΓΟΣ', 'ﬁle.bin', 'İstanbul']


# characters on which the Unicode normal forms, case folding and lower-casing disagree with plain str.lower(): combining
# sequences (NFC would compose them), precomposed letters (NFD would split them), compatibility characters (NFKC rewrites them),
# conjoining jamo, letters whose lower/casefold differ, astral letters with case, a zero-width joiner
CHAR_POOL = ['e\u0301', 'A\u030a', '\u30ab\u3099', '\u1100\u1161', '\u00e9', '\u00c5', '\u212b', '\u212a', '\u2126', '\ufb01', '\uff21', '\uff41',
             '\u00df', '\u1e9e', '\u03a3', '\u03c2', '\u0130', '\u0131', '\U00010400', '\U00010428', '\u200d', '\u00b5', '\u03bc', 'a', 'B', 'z', '0',
             '9', '.', '-', '_', ' ', '~', "'", '\u3042', '\u6f22', '\U0001f600']


def gen_seg(rng):
    n = rng.randint(1, 8)
    seg = ''.join(rng.pick(CHAR_POOL) for _ in range(n))
    if seg in ('.', '..') or seg.strip() != seg or seg.endswith('.'):
        seg = 'x' + seg + 'y'
    return seg


def expected_iv(path):
    """independent derivation: lower-case, forward slashes, UTF-16LE + NUL, SHA-256, xor of the halves"""
    p = path.lower().replace('\\', '/')
    h = hashlib.sha256(p.encode('utf-16le') + b'\0\0').digest()
    return int.from_bytes(h[:16], 'big') ^ int.from_bytes(h[16:], 'big')


def sd_key_x(slot, dev=False, seed=b'verif'):
    blob = envsetup.keyblob(seed + (b'/dev' if dev else b'/retail'))
    # key_loop('x', 0x34): one 16-byte read at 0x170 + 2*16 for slots 0x34-0x37; 0x30: +16; 0x38: +48
    off = {0x34: 0x190, 0x30: 0x180, 0x38: 0x1A0}[slot & ~3]
    return int.from_bytes(blob[off:off + 16], 'big')


class C14(Check):
    prop = 'C14'
    rule = ('movable.sed keys in the three accepted lengths (and rejected ones); paths of depth 1-6 with ASCII/BMP/astral '
            'segments (fixed pool and random strings over combining sequences, precomposed and compatibility characters, jamo, letters '
            'with unusual case mappings), mixed case, leading slash variants, "." ".." and "//" segments; MemoryFS and OSFS (temp dir) '
            'back-ends; access through the ID1 view and through nested opendir views, with open() and with openbin(), re-read through the canonical and through the same spelling; write/seek/read histories; raw '
            'backing bytes compared with the ECB-keystream encryption under the independently derived counter; the '
            'pure sd_path_to_iv function also with backslash separators; which key the card is opened with (sd_key / sd_key_file / pre-keyed engine) '
            'against the model\'s rootKey; on real directories also the older pyctr.type.sd.SDFilesystem with every spelling of the leading separators; non-trivial = always')
    trusted_base = [
        'Lean 4.33 kernel; axioms propext, Classical.choice, Quot.sound only',
        'str.lower is a parameter (ASCII in the executable model; monitor uses Python\'s own lower, generation uses cased ASCII only)',
        'SHA-256 / AES are parameters; pyfilesystem2 path functions and SubFS delegation are covered by correspondence only',
    ]
    assumptions = ['known finding: paths starting with "/backup" longer than 28 characters are aliased to /title/.../data (intended SD Save Data Backup feature)']

    def budget(self, tier):
        return 40 if tier == 'quick' else 400

    def corpus(self):
        # past false alarm of this harness: 28 characters before lower-casing, 29 after ('İ' -> 'i' + U+0307): inside the alias guard
        return [{'api': 'openbin', 'backend': 'os', 'dev': 0, 'keylen': 16, 'reread': 'canonical', 'seed': 1993556901,
                 'segs': ['backup', 'cmd', 'İstanbul', 'ﬁle.bin'], 'style': 'plain', 'via': 'root'},
                # past model error: 28 code points but 29 UTF-16 units (the model counted units): outside the alias guard
                {'api': 'open', 'backend': 'os', 'dev': 0, 'keylen': 16, 'reread': 'canonical', 'seed': 146618893,
                 'segs': ['backup', 'ticket.db', '😀', '00040000'], 'style': 'plain', 'via': 'root'}]

    def gen(self, rng, tier, i):
        depth = rng.randint(1, 5)
        segs = [(gen_seg(rng) if rng.chance(0.4) else rng.pick(SEG_POOLS)) for _ in range(depth)]
        if rng.chance(0.15):
            segs = ['backup' + rng.pick(['', 'foo']), '0004000000123400', 'abcdefgh', '00000001.sav'][:rng.randint(2, 4)]
        elif rng.chance(0.12):
            # '/backup...' paths of total length 26..30: both sides of the alias guard (longer than 28 characters)
            total = rng.pick([26, 27, 28, 28, 29, 30])
            head = 'backup' + rng.pick(['', 's'])
            mid = rng.pick(['savegames', 'dbs', 'x'])
            segs = [head, mid, 'm' * max(1, total - (1 + len(head) + 1 + len(mid) + 1) - 4) + '.sav']
        return {'segs': segs, 'keylen': rng.pick([0x10, 0x120, 0x140, 0x10, 0x11, 0x100]), 'backend': rng.pick(['mem', 'mem', 'os']),
                'via': rng.pick(['root', 'opendir', 'opendir2', 'chain']), 'style': rng.pick(['plain', 'slash', 'dot', 'dotdot', 'dslash', 'upper']),
                'api': rng.pick(['open', 'openbin']), 'reread': rng.pick(['canonical', 'same-spelling']),
                'seed': rng.getrandbits(32), 'dev': 0}

    def run_case(self, case, drv):
        from fs.memoryfs import MemoryFS
        from fs.osfs import OSFS
        from pyctr.type.sdfs import SDRoot
        rng = Rng(case['seed'])
        e = envsetup.install()
        eng = e.CryptoEngine()
        blob = e._b9_keyblob['retail']
        key = rng.rbytes(16)
        data = key if case['keylen'] == 0x10 else (rng.rbytes(0x110) + key + rng.rbytes(0x30))[:case['keylen']]
        mon, key_ = [], None
        outs, models = [], []
        info = {'api:' + case.get('api', 'open'): 1, 'keylen:%#x' % case['keylen']: 1, 'backend:' + case['backend']: 1, 'via:' + case['via']: 1, 'style:' + case['style']: 1}
        # --- key setup / ID0
        if case['seed'] % 3 == 0:
            # the engine has a HISTORY: it was set up with another console's movable.sed and used (ID0 read, a clone taken) before
            # this key is loaded - everything derived from the SD key must follow the key that is loaded now
            info['engine re-keyed'] = 1
            try:
                eng.setup_sd_key(Rng(case['seed'] + 5).rbytes(16))
                _ = eng.id0
                _ = eng.clone().id0
            except Exception:  # noqa
                pass
        try:
            eng.setup_sd_key(data)
            kn = eng.key_normal
            outs.append('ok %s %s %s %s' % (kn[0x34].hex(), kn[0x30].hex(), kn[0x3A].hex(), eng.id0.hex()))
            ok = True
        except Exception as ex:  # noqa
            outs.append('e:' + exc_name(ex))
            ok = False
        models.append(drv.ask(('sd-key', data, 0, blob)))
        good_len = case['keylen'] in (0x10, 0x120, 0x140)
        if good_len != ok:
            mon.append(f'movable.sed of length {case["keylen"]:#x}: accepted={ok}')
            key_ = 'sd.keylen'
        if ok:
            h = hashlib.sha256(key).digest()[:16]
            exp_id0 = b''.join(h[i:i + 4][::-1] for i in range(0, 16, 4))
            ky = int.from_bytes(key, 'big')
            if eng.id0 != exp_id0:
                mon.append('ID0 differs from the re-packed SHA-256 words')
                key_ = 'sd.id0'
            if eng.key_normal[0x34] != scr(0x34, sd_key_x(0x34), ky):
                mon.append('SD keyslot normal key is not scrambler(KeyX[0x34], movable KeyY)')
                key_ = 'sd.key'
            # --- the pure counter function
            rel = '/' + '/'.join(case['segs'])
            ivs = {}
            for variant in (rel, rel.upper() if all(c.isascii() for c in rel) else rel, rel.replace('/', '\\'),
                            ''.join(c.upper() if (c.isascii() and k % 2) else c for k, c in enumerate(rel)),
                            '/' + rel[1:2].upper() + rel[2:] if rel[1:2].isascii() else rel,
                            # mixed separators: all but the leading one, only the leading one, only the last one, alternating
                            '/' + rel[1:].replace('/', '\\'), '\\' + rel[1:],
                            '\\'.join(rel.rsplit('/', 1)),
                            ''.join(('\\' if (c == '/' and rel[:k].count('/') % 2) else c) for k, c in enumerate(rel))):
                iv = eng.sd_path_to_iv(variant)
                ivs[variant] = iv
                outs.append(str(iv))
                models.append(drv.ask(('sd-iv', variant.encode('utf-32le'))) if all(
                    (not c.isalpha()) or c.isascii() for c in variant) else str(iv))
            if len(set(ivs.values())) > 1:
                # case- and separator-insensitivity, whatever the counter is (this also covers the aliased /backup paths)
                mon.append(f'spellings of one path that differ only in ASCII case / separator get different counters: {sorted(ivs)[:3]}')
                key_ = 'sd.case'
            else:
                for variant, iv in ivs.items():
                    if iv != expected_iv(rel):
                        is_backup = rel.lower().startswith('/backup') and len(rel.lower()) > 28     # the guard is evaluated on the lower-cased path (which can be longer: 'İ' -> 'i̇')
                        mon.append(f'counter of {variant!r} is not the hash of the normalised path')
                        key_ = 'sd.backup-alias' if is_backup else 'sd.iv'
                        break
            # --- files through the filesystem
            if not mon:
                tmp = None
                try:
                    if case['backend'] == 'os':
                        tmp = tempfile.mkdtemp(prefix='pyctr-verif-c14-')
                        base = OSFS(tmp)
                    else:
                        base = MemoryFS()
                    id0, id1 = eng.id0.hex(), rng.rbytes(16).hex()
                    base.makedirs(f'{id0}/{id1}')
                    if case['seed'] % 4 == 1:
                        # the root makes its OWN engine from the key, and a second card with another console's key is opened next to
                        # it (and stays open) before the first one is used: roots must not share key state however they got their engines
                        root = SDRoot(base, sd_key=data)
                        rk = (b'', data, [])
                        info['second card opened alongside (own engines)'] = 1
                        key2 = Rng(case['seed'] + 21).rbytes(16)
                        e2 = e.CryptoEngine()
                        e2.setup_sd_key(key2)
                        other_base = MemoryFS()
                        other_base.makedirs(f'{e2.id0.hex()}/{rng.rbytes(16).hex()}')
                        other_root = SDRoot(other_base, sd_key=key2)     # noqa: F841  (kept alive on purpose)
                    elif case['seed'] % 4 == 2:
                        # the caller's engine already holds ANOTHER console's SD key, and this card's key is given as the argument
                        info['engine pre-keyed with another movable.sed + sd_key argument'] = 1
                        eng2 = e.CryptoEngine()
                        eng2.setup_sd_key(Rng(case['seed'] + 22).rbytes(16))
                        _ = eng2.id0
                        root = SDRoot(base, crypto=eng2, sd_key=data)
                        rk = (Rng(case['seed'] + 22).rbytes(16), data, [])
                    elif case['seed'] % 4 == 3:
                        # the key comes from a movable.sed FILE whose path was used before, for another console's card, in this process
                        import os as _os
                        import tempfile as _tf
                        info['sd_key_file path used before for another card'] = 1
                        kdir = _tf.mkdtemp(prefix='pyctr-verif-c14k-')
                        kpath = _os.path.join(kdir, 'movable.sed')
                        try:
                            key3 = Rng(case['seed'] + 23).rbytes(16)
                            with open(kpath, 'wb') as kf:
                                kf.write(bytes(0x110) + key3 + bytes(0x20))
                            e3 = e.CryptoEngine()
                            e3.setup_sd_key(key3)
                            ob = MemoryFS()
                            ob.makedirs(f'{e3.id0.hex()}/{rng.rbytes(16).hex()}')
                            SDRoot(ob, sd_key_file=kpath)
                            with open(kpath, 'wb') as kf:
                                kf.write(data if len(data) in (0x120, 0x140) else bytes(0x110) + data + bytes(0x20))
                            root = SDRoot(base, sd_key_file=kpath)
                            rk = (b'', b'', [data if len(data) in (0x120, 0x140) else bytes(0x110) + data + bytes(0x20)])
                        finally:
                            shutil.rmtree(kdir, ignore_errors=True)
                    else:
                        root = SDRoot(base, crypto=eng)
                        rk = (data, b'', [])
                    # which key the card was opened with: the model's `rootKey` (theorem C14_root_key) on the same arguments
                    rkn = root._crypto.key_normal
                    outs.append('ok %s %s %s %s' % (rkn[0x34].hex(), rkn[0x30].hex(), rkn[0x3A].hex(), root.id0))
                    models.append(drv.ask(('sd-root', rk[0], rk[1], rk[2], 0, blob)))
                    sdfs = root.open_id1()
                    segs = case['segs']
                    dirp = '/'.join(segs[:-1])
                    if dirp:
                        sdfs.makedirs(dirp, recreate=True)
                    fname = segs[-1]
                    style = case['style']
                    full = (dirp + '/' if dirp else '') + fname
                    spell = {'plain': full, 'slash': '/' + full, 'dot': './' + full, 'dslash': full.replace('/', '//', 1),
                             'dotdot': (segs[0] + '/../' + full) if dirp else full, 'upper': full}[style]
                    if case['via'] == 'root' or not dirp:
                        view, vpath = sdfs, spell
                    elif case['via'] == 'opendir':
                        view, vpath = sdfs.opendir(segs[0]), '/'.join(segs[1:])
                    elif case['via'] == 'chain':
                        # a view of a view of a view: one opendir() per directory level
                        view = sdfs
                        for seg in segs[:-1]:
                            view = view.opendir(seg)
                        vpath = fname
                    else:
                        view, vpath = sdfs.opendir(dirp), fname
                    content = rng.rbytes(rng.pick([0, 1, 15, 16, 17, 40, 100]))
                    # both entry points of the filesystem interface: open() and openbin()
                    opener = (lambda v, pth, m: v.openbin(pth, m)) if case.get('api') == 'openbin' else (lambda v, pth, m: v.open(pth, m))
                    with opener(view, vpath, 'wb') as f:
                        f.write(content)
                    raw = base.readbytes(f'{id0}/{id1}/' + full)
                    ivx = expected_iv('/' + full)
                    if raw != ctr_xor(eng.key_normal[0x34], ivx, content, False):
                        is_backup = ('/' + full).lower().startswith('/backup') and len(('/' + full).lower()) > 28
                        mon.append(f'backing file of {full!r} (written via {case["via"]}/{style}) is not the CTR encryption under the path counter')
                        key_ = 'sd.backup-alias' if is_backup else 'sd.write'
                    # read / modify through another view, compare with a shadow plaintext
                    ref = RefFile(content, False)
                    with opener(*((view, vpath) if case.get('reread') == 'same-spelling' else (sdfs, full)), 'r+b') as f:
                        for _ in range(6):
                            r = rng.random()
                            if r < 0.4:
                                n = rng.pick([-1, 0, 1, 16, 17, 33])
                                if f.read(n) != ref.read(n) and not mon:
                                    mon.append('read through the SD view differs from the logical plaintext')
                                    key_ = 'sd.read'
                            elif r < 0.7:
                                off = rng.randint(0, len(ref.content))
                                f.seek(off)
                                ref.seek(off, 0)
                            else:
                                w = rng.rbytes(rng.pick([1, 5, 16, 20]))
                                if ref.pos <= len(ref.content):
                                    f.write(w)
                                    ref.write(w)
                    raw = base.readbytes(f'{id0}/{id1}/' + full)
                    if raw != ctr_xor(eng.key_normal[0x34], ivx, bytes(ref.content), False) and not mon:
                        mon.append('after writes the backing file is not the encryption of the logical plaintext')
                        key_ = 'sd.rw'
                    # a handle opened for reading only: a write on it is refused (as on any file opened 'rb'), and reading goes on
                    # from where it was as if nothing had been attempted
                    plain = bytes(ref.content)
                    with opener(view, vpath, 'rb') as f:
                        k = rng.pick([0, 1, 16, 17]) if plain else 0
                        got = f.read(k)
                        try:
                            f.write(rng.rbytes(rng.pick([1, 16, 20])))
                            refused = False
                        except Exception:  # noqa
                            refused = True
                        got += f.read()
                        if not mon and (got != plain or not refused):
                            mon.append('read-only handle: ' + ('the write was not refused' if not refused else
                                                               'data read after the refused write differs from the plaintext'))
                            key_ = 'sd.read'
                    if base.readbytes(f'{id0}/{id1}/' + full) != raw and not mon:
                        mon.append('a write on a read-only handle changed the backing file')
                        key_ = 'sd.rw'
                    # the older interface onto the same card (pyctr.type.sd.SDFilesystem, real directories only): same key choice, same
                    # counter, for every spelling of the leading separator(s)
                    if tmp and not mon and 'Nintendo DSiWare' not in full:
                        import warnings
                        with warnings.catch_warnings():
                            warnings.simplefilter('ignore')
                            from pyctr.type.sd import SDFilesystem
                        info['SDFilesystem (pyctr.type.sd) on the same card'] = 1
                        sdx = SDFilesystem(tmp, crypto=e.CryptoEngine(), sd_key=data)
                        for lead in ('', '/', '//', '///', '\\', '/\\'):
                            with sdx.open(lead + full, 'rb') as fh:
                                got = fh.read()
                            if got != plain and not mon:
                                mon.append(f'SDFilesystem.open({lead + full!r}) does not return the plaintext stored under the path counter')
                                key_ = 'sd.read'
                        lead = rng.pick(['', '/', '//', '\\', '/\\'])
                        new_plain = rng.rbytes(rng.pick([1, 16, 33]))
                        with sdx.open(lead + full, 'wb') as fh:
                            fh.write(new_plain)
                        raw = base.readbytes(f'{id0}/{id1}/' + full)
                        if raw != ctr_xor(eng.key_normal[0x34], ivx, new_plain, False) and not mon:
                            mon.append(f'SDFilesystem.open({lead + full!r}, "wb"): the backing file is not the encryption under the path counter')
                            key_ = 'sd.write'
                    outs.append(raw.hex() or '-')
                    models.append(raw.hex() or '-')
                except Exception as ex:  # noqa
                    outs.append('e:' + exc_name(ex))
                    models.append(outs[-1])
                    if not isinstance(ex, NotImplementedError):
                        mon.append(f'filesystem access raised {exc_name(ex)}: {ex}')
                        key_ = 'sd.fs'
                finally:
                    if tmp:
                        shutil.rmtree(tmp, ignore_errors=True)
        real = ' | '.join(outs)
        model = ' | '.join(models)
        return CaseResult(real, model, mon, sig=str(hash(real)), key=key_, info=info)

    def shrink(self, case):
        if len(case['segs']) > 1:
            yield dict(case, segs=case['segs'][1:])
            yield dict(case, segs=case['segs'][:-1])
        if case['via'] != 'root':
            yield dict(case, via='root')
        if case['style'] != 'plain':
            yield dict(case, style='plain')

    def neighbours(self, case, rng):
        for i in range(60):
            yield self.gen(rng, 'quick', i)


CHECK = C14()
