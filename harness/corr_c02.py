"""C02 — random-access AES-CBC reads equal whole-stream decryption; the wrapper never writes."""
from stackcheck import StackCheck, gen_ops

HUGE = [1 << 32, (1 << 32) + 16, (1 << 33), (1 << 36) + 32, (1 << 40), (1 << 63) - 4096, (1 << 64), (1 << 64) + (1 << 32)]


class C02(StackCheck):
    prop = 'C02'
    rule = ('key, IV, ciphertext length in {0,16,...,96}, base BytesIO or SubsectionIO at non-zero offset, op lists of '
            '1-12 seek/read/tell/write (write must raise and change nothing) incl. reads inside block 0, starting or '
            'ending mid-block, at the end and 1-40 bytes past it, a tenth of the cases on a virtual file with positions beyond 2^32, '
            '2^36, 2^63 and 2^64 bytes (monitor only), the inner file object moved by its owner between calls (the '
            'wrapper has no position of its own); monitor = per-block ECB decryption xor previous '
            'ciphertext block, instrumented base logs writes; non-trivial = some op returned data or raised')
    trusted_base = [
        'Lean 4.33 kernel; axioms propext, Classical.choice, Quot.sound only',
        'AES-128 decryption is a parameter D in the theorems; driver instance validated against PyCryptodome',
        'PyCryptodome CBC decrypt modelled by cbcDecrypt (IV/length errors)',
        'io.BytesIO modelled by PyFile; Driver knot nodeOps; harness generator and ECB monitor',
    ]
    assumptions = ['ciphertext length multiple of 16 (as in the property)', 'one thread', 'not closed']

    def budget(self, tier):
        return 500 if tier == 'quick' else 4000

    def gen(self, rng, tier, i):
        if rng.chance(0.1):
            # positions beyond 2^32 bytes / 2^32 blocks / 2^64 on a file that exists only as a function of the offset
            ops = []
            for _ in range(rng.randint(1, 4)):
                base = rng.pick(HUGE)
                ops.append(['s', base + rng.pick([0, 1, 5, 15, 16, 17, 0xFF0, -1, -16, -33]), 0])
                for _ in range(rng.randint(1, 2)):
                    ops.append(['r', rng.pick([1, 5, 16, 17, 32, 40])])
                if rng.chance(0.3):
                    ops.append(['t'])
            return {'huge': True, 'key': rng.rbytes(16), 'iv': rng.rbytes(16), 'seed': rng.rbytes(8), 'ops': ops}
        ln = rng.pick([0, 16, 32, 48, 64, 96])
        key, iv = rng.rbytes(16), rng.rbytes(16)
        if rng.chance(0.5):
            base = ['bio', rng.rbytes(ln)]
        else:
            off = rng.randint(1, 37)
            base = ['sub', off, ln, ['bio', rng.rbytes(off + ln + rng.pick([0, 0, 3, 20]))]]
        ops = gen_ops(rng, ln, writes=rng.chance(0.3), queries=True)
        if rng.chance(0.4):
            # the inner file is moved behind the wrapper's back (a second wrapper on the same file object, the caller itself)
            for _ in range(rng.randint(1, 3)):
                ops.insert(rng.randint(0, len(ops)), ['is', rng.pick([0, 16, 32, 48, 64, rng.randint(0, ln + 20)])])
        return {'node': ['cbc', key, iv, base], 'ops': ops}

    def run_case(self, case, drv):
        if not case.get('huge'):
            return super().run_case(case, drv)
        import envsetup
        from Cryptodome.Cipher import AES
        from corr_c01 import VirtualFile
        from framework import CaseResult
        e = envsetup.install()
        eng = e.CryptoEngine()
        eng.set_normal_key(0x10, case['key'])
        vf = VirtualFile((1 << 70) + 4096, case['seed'])
        f = eng.create_cbc_io(0x10, vf, case['iv'])
        dec = AES.new(case['key'], AES.MODE_ECB)
        mon, outs = [], []
        pos = 0
        for op in case['ops']:
            try:
                if op[0] == 's':
                    pos = f.seek(op[1], op[2])
                    outs.append(f'n:{pos}')
                    if pos != op[1]:
                        mon.append(f'seek({op[1]}) returned {pos}')
                elif op[0] == 't':
                    t = f.tell()
                    outs.append(f'n:{t}')
                    if t != pos:
                        mon.append(f'tell() = {t}, expected {pos}')
                else:
                    d = f.read(op[1])
                    outs.append('b:' + d.hex())
                    b0 = pos - pos % 16
                    nblk = (pos % 16 + op[1] + 15) // 16
                    ct = vf.content(b0 - 16, 16 * (nblk + 1)) if b0 >= 16 else case['iv'] + vf.content(0, 16 * nblk)
                    plain = b''.join(bytes(x ^ y for x, y in zip(dec.decrypt(ct[16 * (k + 1):16 * (k + 2)]), ct[16 * k:16 * (k + 1)]))
                                     for k in range(nblk))
                    exp = plain[pos % 16:pos % 16 + op[1]]
                    if d != exp:
                        mon.append(f'read({op[1]}) at {pos:#x}: bytes differ from the whole-stream CBC decryption at that position')
                    pos += len(d)
            except Exception as ex:     # noqa
                outs.append('e:' + type(ex).__name__)
                mon.append(f'{op} at {pos:#x} raised {type(ex).__name__}')
                break
        real = ' '.join(outs)
        return CaseResult(real, real, mon, 'huge:' + str(case['ops'])[:60], 'cbc.huge' if mon else None, {'stack:huge-cbc': 1})

    def shrink(self, case):
        if not case.get('huge'):
            yield from super().shrink(case)
            return
        ops = case['ops']
        for i in range(len(ops)):
            yield dict(case, ops=ops[:i] + ops[i + 1:])

    def neighbours(self, case, rng):
        if not case.get('huge'):
            yield from super().neighbours(case, rng)

    def exhaustive(self, tier):
        if tier != 'thorough':
            return
        key, iv = bytes(range(16)), bytes(range(100, 116))
        data = bytes((11 * i + 5) & 0xFF for i in range(70))
        for base in (['bio', data[:48]], ['sub', 7, 48, ['bio', data]]):
            for off in range(0, 48 + 41):
                for n in list(range(0, 41)) + [-1]:
                    yield {'node': ['cbc', key, iv, base], 'ops': [['s', off, 1], ['r', n], ['t'], ['r', 4], ['t']]}


CHECK = C02()
