"""C02 — random-access AES-CBC reads equal whole-stream decryption; the wrapper never writes."""
from stackcheck import StackCheck, gen_ops


class C02(StackCheck):
    prop = 'C02'
    rule = ('key, IV, ciphertext length in {0,16,...,96}, base BytesIO or SubsectionIO at non-zero offset, op lists of '
            '1-12 seek/read/tell/write (write must raise and change nothing) incl. reads inside block 0, starting or '
            'ending mid-block, at the end and 1-40 bytes past it, the inner file object moved by its owner between calls (the '
            'wrapper has no position of its own); monitor = per-block ECB decryption xor previous '
            'ciphertext block, instrumented base logs writes; non-trivial = some op returned data or raised')
    trusted_base = [
        'Lean 4.33 kernel; axioms propext, Classical.choice, Quot.sound only',
        'AES-128 decryption is a parameter D in the theorems; driver instance validated against PyCryptodome',
        'PyCryptodome CBC decrypt modelled by cbcDecrypt (IV/length errors)',
        'io.BytesIO modelled by PyFile; Driver knot nodeOps; harness generator and ECB monitor',
    ]
    assumptions = ['ciphertext length multiple of 16 (as in the property)', 'one thread', 'not closed']

    def budget(self, tier):
        return 500 if tier == 'quick' else 4000

    def gen(self, rng, tier, i):
        ln = rng.pick([0, 16, 32, 48, 64, 96])
        key, iv = rng.rbytes(16), rng.rbytes(16)
        if rng.chance(0.5):
            base = ['bio', rng.rbytes(ln)]
        else:
            off = rng.randint(1, 37)
            base = ['sub', off, ln, ['bio', rng.rbytes(off + ln + rng.pick([0, 0, 3, 20]))]]
        ops = gen_ops(rng, ln, writes=rng.chance(0.3), queries=True)
        if rng.chance(0.4):
            # the inner file is moved behind the wrapper's back (a second wrapper on the same file object, the caller itself)
            for _ in range(rng.randint(1, 3)):
                ops.insert(rng.randint(0, len(ops)), ['is', rng.pick([0, 16, 32, 48, 64, rng.randint(0, ln + 20)])])
        return {'node': ['cbc', key, iv, base], 'ops': ops}

    def exhaustive(self, tier):
        if tier != 'thorough':
            return
        key, iv = bytes(range(16)), bytes(range(100, 116))
        data = bytes((11 * i + 5) & 0xFF for i in range(70))
        for base in (['bio', data[:48]], ['sub', 7, 48, ['bio', data]]):
            for off in range(0, 48 + 41):
                for n in list(range(0, 41)) + [-1]:
                    yield {'node': ['cbc', key, iv, base], 'ops': [['s', off, 1], ['r', n], ['t'], ['r', 4], ['t']]}


CHECK = C02()
