"""Reference "ordinary binary file" written against nothing but Python slicing: the monitor's oracle."""


class RefFile:
    def __init__(self, content, fixed, pos=0, clamp=None):
        self.content = bytearray(content)
        self.fixed = fixed
        self.pos = pos
        self.clamp = fixed if clamp is None else clamp

    def read(self, n):
        avail = max(len(self.content) - self.pos, 0)
        k = avail if n < 0 else min(n, avail)
        d = bytes(self.content[self.pos:self.pos + k])
        self.pos += k
        return d

    def write(self, w):
        if self.fixed:
            w = w[:max(len(self.content) - self.pos, 0)]
        if not w:
            return 0
        if self.pos > len(self.content):
            self.content.extend(b'\0' * (self.pos - len(self.content)))
        self.content[self.pos:self.pos + len(w)] = w
        self.pos += len(w)
        return len(w)

    def seek(self, off, wh):
        if wh == 0:
            if off < 0:
                raise ValueError
            self.pos = min(off, len(self.content)) if self.clamp else off
        elif wh == 1:
            self.pos = max(self.pos + off, 0)
        elif wh == 2:
            self.pos = max(len(self.content) + off, 0)
        else:
            raise ValueError
        return self.pos
