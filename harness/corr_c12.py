"""C12 — CTR-wrapper writes keep ciphertext file and plaintext view consistent."""
from corr_c01 import gen_crypto_node
from stackcheck import StackCheck, gen_ops


class C12(StackCheck):
    prop = 'C12'
    rule = ('as C01 plus write ops (empty, unaligned, block-straddling, extending the file, truncated by a window) in '
            'every adjacent pairing of read/write/seek; after every op the monitor compares the underlying file with '
            'the ECB-encryption of a shadow plaintext bytearray; non-trivial = some op moved data or raised')
    trusted_base = [
        'Lean 4.33 kernel; axioms propext, Classical.choice, Quot.sound only',
        'AES-128 is a parameter E in the theorems; driver instance validated against PyCryptodome',
        'PyCryptodome CTR cipher-object protocol modelled by CtrObj (keystream continuity, direction lock)',
        'io.BytesIO modelled by PyFile; Driver knot nodeOps; harness generator and shadow-plaintext monitor',
    ]
    assumptions = ['counter + blocks < 2^128', 'one thread', 'not closed',
                   'known finding: a write that starts past EOF leaves the zero-filled gap unencrypted']

    def budget(self, tier):
        return 500 if tier == 'quick' else 4000

    def gen(self, rng, tier, i):
        node, ln = gen_crypto_node(rng, rng.pick(['ctr', 'twl']), [0, 1, 15, 16, 17, 31, 32, 40, 64])
        return {'node': node, 'ops': gen_ops(rng, ln, writes=True, queries=False)}

    def exhaustive(self, tier):
        if tier != 'thorough':
            return
        key, ctr = bytes(range(16)), (1 << 64) - 2
        data = bytes((7 * i + 3) & 0xFF for i in range(60))
        alphabet = [['r', 3], ['r', 16], ['r', 20], ['w', b'\x11' * 3], ['w', b'\x22' * 16], ['w', b'\x33' * 21],
                    ['s', 0, 1], ['s', 5, 0]]
        for kind in ('ctr', 'twl'):
            for base in (['bio', data[:40]], ['sub', 5, 40, ['bio', data]]):
                for start in (0, 1, 15, 16, 17, 30, 38):
                    for a in alphabet:
                        for b in alphabet:
                            for c in alphabet:
                                yield {'node': [kind, key, ctr, base], 'ops': [['s', start, 0], a, b, c, ['s', 0, 0], ['r', -1]]}


CHECK = C12()
