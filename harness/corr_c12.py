"""C12 — CTR-wrapper writes keep ciphertext file and plaintext view consistent."""
from filestack import ctr_slot
from corr_c01 import gen_crypto_node, VirtualFile, HUGE, CTR_POOL
from stackcheck import StackCheck, add_owner_moves, gen_ops


class C12(StackCheck):
    prop = 'C12'
    rule = ('as C01 plus write ops (empty, unaligned, block-straddling, extending the file, truncated by a window) in '
            'every adjacent pairing of read/write/seek, plus writes and read-backs beyond 2^32 bytes / blocks / 2^64 on a sparse virtual file (monitor only); after every op the monitor compares the underlying file with '
            'the ECB-encryption of a shadow plaintext bytearray; non-trivial = some op moved data or raised')
    trusted_base = [
        'Lean 4.33 kernel; axioms propext, Classical.choice, Quot.sound only',
        'AES-128 is a parameter E in the theorems; driver instance validated against PyCryptodome',
        'PyCryptodome CTR cipher-object protocol modelled by CtrObj (keystream continuity, direction lock)',
        'io.BytesIO modelled by PyFile; Driver knot nodeOps; harness generator and shadow-plaintext monitor',
    ]
    assumptions = ['counter + blocks < 2^128', 'one thread', 'not closed',
                   'known finding: a write that starts past EOF leaves the zero-filled gap unencrypted']

    def budget(self, tier):
        return 500 if tier == 'quick' else 4000

    def gen(self, rng, tier, i):
        if rng.chance(0.12):
            # writes and read-backs at positions beyond 2^32 bytes / 2^32 blocks, on a sparse virtual file
            ops = []
            for _ in range(rng.randint(1, 3)):
                at = rng.pick(HUGE) + rng.pick([0, 1, 5, 15, 16, 17, 0xFF0, -1, -16, -33])
                ops.append(['s', at, 0])
                ops.append(['w', rng.rbytes(rng.pick([1, 5, 16, 17, 33]))])
                if rng.chance(0.5):
                    ops.append(['w', rng.rbytes(rng.pick([1, 16, 20]))])
                ops.append(['s', at - rng.pick([0, 3, 16]), 0])
                ops.append(['r', rng.pick([16, 40, 64])])
            return {'huge': True, 'kind': rng.pick(['ctr', 'ctr', 'twl']), 'key': rng.rbytes(16),
                    'ctr': rng.pick(CTR_POOL[:3] + [rng.getrandbits(100)]), 'seed': rng.rbytes(8), 'ops': ops}
        node, ln = gen_crypto_node(rng, rng.pick(['ctr', 'twl']), [0, 1, 15, 16, 17, 31, 32, 40, 64])
        ops = gen_ops(rng, ln, writes=True, queries=False)
        if rng.chance(0.35):
            ops = add_owner_moves(rng, ops, ln)
        return {'node': node, 'ops': ops}

    def run_case(self, case, drv):
        if not case.get('huge'):
            return super().run_case(case, drv)
        import envsetup
        from filestack import ctr_xor
        from framework import CaseResult
        e = envsetup.install()
        eng = e.CryptoEngine()
        twl = case['kind'] == 'twl'
        slot = ctr_slot(case['kind'], case['key'])
        eng.set_normal_key(slot, case['key'])
        vf = VirtualFile((1 << 70) + 4096, case['seed'])
        f = eng.create_ctr_io(slot, vf, case['ctr'])
        mon, outs = [], []
        pos = 0

        def plain(at, n):
            """the logical plaintext of [at, at+n) = decryption of what the file holds now"""
            ct = vf.content(at - at % 16, n + at % 16)
            return ctr_xor(case['key'], (case['ctr'] + (at >> 4)) % (1 << 128), ct, twl)[at % 16:]
        for op in case['ops']:
            try:
                if op[0] == 's':
                    pos = f.seek(op[1], op[2])
                    outs.append(f'n:{pos}')
                elif op[0] == 'w':
                    data = bytes(op[1])
                    before = plain(pos - 32, 64 + len(data)) if pos >= 32 else None
                    n = f.write(data)
                    outs.append(f'n:{n}')
                    if n != len(data):
                        mon.append(f'write of {len(data)} bytes at {pos:#x} returned {n}')
                    if plain(pos, len(data)) != data:
                        mon.append(f'after write at {pos:#x} the file is not the encryption of the written plaintext')
                    if before is not None:
                        after = plain(pos - 32, 64 + len(data))
                        if after[:32] != before[:32] or after[32 + len(data):] != before[32 + len(data):]:
                            mon.append(f'write at {pos:#x} changed the plaintext next to the written range')
                    pos += n
                else:
                    d = f.read(op[1])
                    outs.append('b:' + d.hex())
                    if d != plain(pos, op[1]):
                        mon.append(f'read({op[1]}) at {pos:#x}: bytes differ from the decryption of the file at that position')
                    pos += len(d)
            except Exception as ex:     # noqa
                outs.append('e:' + type(ex).__name__)
                mon.append(f'{op[0]} at {pos:#x} raised {type(ex).__name__}')
                break
        real = ' '.join(outs)
        return CaseResult(real, real, mon, 'huge:' + str(case['ops'])[:60], 'ctr.huge' if mon else None, {'stack:huge-' + case['kind']: 1})

    def shrink(self, case):
        if not case.get('huge'):
            yield from super().shrink(case)
            return
        ops = case['ops']
        for i in range(len(ops)):
            if len(ops) > 1:
                c = dict(case)
                c['ops'] = ops[:i] + ops[i + 1:]
                yield c

    def exhaustive(self, tier):
        if tier != 'thorough':
            return
        key, ctr = bytes(range(16)), (1 << 64) - 2
        data = bytes((7 * i + 3) & 0xFF for i in range(60))
        alphabet = [['r', 3], ['r', 16], ['r', 20], ['w', b'\x11' * 3], ['w', b'\x22' * 16], ['w', b'\x33' * 21],
                    ['s', 0, 1], ['s', 5, 0]]
        for kind in ('ctr', 'twl'):
            for base in (['bio', data[:40]], ['sub', 5, 40, ['bio', data]]):
                for start in (0, 1, 15, 16, 17, 30, 38):
                    for a in alphabet:
                        for b in alphabet:
                            for c in alphabet:
                                yield {'node': [kind, key, ctr, base], 'ops': [['s', start, 0], a, b, c, ['s', 0, 0], ['r', -1]]}


CHECK = C12()
