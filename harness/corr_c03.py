"""C03 — every NCCH section view yields the section plaintext under every crypto scheme."""
import io

import envsetup
import ncchbuild
import romfsbuild
from common import Rng, exc_name, sexp
from framework import CaseResult, Check
from stackcheck import gen_ops

SEC_NUM = {'extheader': 1, 'exefs': 2, 'romfs': 3, 'logo': 5, 'plain': 6}
NAMES = ['icon', 'banner', '.code', 'logo', 'x', 'data1', 'zz', 'Icon', 'BANNER', 'banner2', 'ico', 'Banner']   # incl. near misses of the primary-key names


def gen_desc(rng):
    method = rng.pick([0, 1, 0xA, 0xB])
    fixed = rng.chance(0.15)
    no_crypto = rng.chance(0.15)
    seed = rng.rbytes(16) if (rng.chance(0.4) and not fixed) else None
    prog = rng.pick([0x0004000000123400, 0x0004001000ABCD00, 0x0004000E00000000 | rng.getrandbits(24) << 8,
                     # any 64-bit value is a legal program id: top bit set, all ones, zero, only the top byte
                     (1 << 63) | rng.getrandbits(48), (1 << 64) - 1 - rng.getrandbits(8), rng.getrandbits(64), 0xFF << 56])
    files = None
    if rng.chance(0.9):
        files = []
        names = rng.sample(NAMES, rng.randint(0, min(7, len(NAMES))))
        for n in names:
            files.append([n, rng.rbytes(rng.pick([0, 1, 0x1FF, 0x200, 0x201, 0x400, rng.randint(0, 0x500)]))])
    romfs = None
    if rng.chance(0.6):
        lv3, _ = romfsbuild.build_lv3(['d', '', [], [['f%d.bin' % i, rng.rbytes(rng.randint(0, 40))] for i in range(rng.randint(0, 3))]])
        romfs, _ = romfsbuild.wrap_ivfc(lv3, rng.pick([0x20, 0x40]), rng.pick([9, 12]))
    return {
        'key_y': rng.rbytes(16), 'program_id': prog, 'partition_id': rng.pick([prog, prog ^ 0x0001000000000000, rng.getrandbits(64)]),
        'crypto_method': method, 'fixed_key': fixed, 'no_crypto': no_crypto, 'seed': seed,
        'extheader': rng.rbytes(0x800) if rng.chance(0.7) else None,
        'logo': rng.rbytes(rng.pick([0x200, 0x2000 // 8])) if rng.chance(0.3) else None,
        'plain': rng.rbytes(rng.randint(1, 0x300)) if rng.chance(0.4) else None,
        'exefs_files': files, 'romfs': romfs,
        # unclaimed space: between sections (1-4 chunks, sometimes before two sections) and after the last one (0-4 chunks)
        'gaps': ({rng.pick(['exefs', 'romfs', 'plain', 'logo']): rng.pick([1, 1, 2, 3, 4]),
                  rng.pick(['exefs', 'romfs', 'plain', 'logo']): rng.pick([1, 2])} if rng.chance(0.4) else None),
        'tail_gap': rng.pick([0, 0, 1, 2, 4]),
    }


class NcchCheck(Check):
    """shared by C03 (per-section views) and C04 (fully-decrypted view)"""
    sections_under_test = ('extheader', 'exefs', 'romfs', 'logo', 'plain')
    full = False

    def budget(self, tier):
        return 40 if tier == 'quick' else 500

    def gen(self, rng, tier, i):
        d = gen_desc(rng)
        mode = rng.pick(['normal', 'normal', 'normal', 'assume', 'badseed', 'badseed-db', 'noseed']) if d['seed'] is not None else \
            rng.pick(['normal', 'normal', 'assume'])
        return {'desc': d, 'start': rng.pick([0, 0, 0x200, 0x1230]), 'mode': mode, 'seed': rng.getrandbits(32)}

    def run_case(self, case, drv):
        from pyctr.type.ncch import NCCHReader, NCCHSection
        import pyctr.crypto.seeddb as sdb
        rng = Rng(case['seed'])
        desc = dict(case['desc'])
        desc['rng'] = Rng(case['seed'] + 1)
        mode, start = case['mode'], case['start']
        e = envsetup.install()
        envsetup.reset_seeddb()
        blob = e._b9_keyblob['retail']
        img, info = ncchbuild.build(desc)
        assume = mode == 'assume'
        if assume:
            # an image decrypted by a tool that did not fix the flags: plaintext sections, original crypto flags
            img = ncchbuild.decrypted_image(img, info, desc)
            img = img[:0x18B] + bytes([desc['crypto_method']]) + img[0x18C:0x18F] + \
                bytes([(1 if desc['fixed_key'] else 0) | (4 if desc['no_crypto'] else 0) | (0x20 if desc['seed'] is not None else 0)]) + img[0x190:]
        file_bytes = b'\xEE' * start + img + b'\xDD' * 5
        seed_arg = desc['seed']
        if mode == 'badseed':
            seed_arg = bytes(x ^ 0x55 for x in desc['seed'])
        elif mode == 'noseed':
            seed_arg = None
        # a SIBLING content was opened first in this process: same program / partition id, same crypto flags and seed, but another
        # signature (hence another KeyY) and other data - two contents of one DLC title, two builds of one content.  Whatever the
        # library remembers about the first must not leak into the second
        if case['seed'] % 2 == 0 and not assume:
            sib = dict(desc, key_y=Rng(case['seed'] + 2).rbytes(16), rng=Rng(case['seed'] + 3))
            try:
                simg, _ = ncchbuild.build(sib)
                srd = NCCHReader(io.BytesIO(simg), crypto=e.CryptoEngine(), seed=desc['seed'], closefd=False, load_sections=False)
                for sec in (NCCHSection.ExtendedHeader, NCCHSection.ExeFS, NCCHSection.RomFS):
                    try:
                        srd.open_raw_section(sec).read(0x40)
                    except Exception:  # noqa
                        pass
                srd.close()
            except Exception:  # noqa
                pass
            envsetup.reset_seeddb()      # the seed database is process-wide by design; "seed not known" cases need it empty again
        db_history = False
        if mode == 'badseed-db':
            # the wrong seed does not come as an argument but through the seed DATABASE, and after a history: the same container was
            # opened with its right seed first (so whatever "this title's seed is fine" knowledge the library keeps exists), then a
            # seeddb file with another seed for this program id is loaded, then the container is opened without a seed argument
            mode = 'badseed'
            db_history = True
            try:
                b0 = io.BytesIO(file_bytes)
                b0.seek(start)
                NCCHReader(b0, crypto=e.CryptoEngine(), seed=desc['seed'], closefd=False, load_sections=False).close()
            except Exception:  # noqa
                pass
            wrong = bytes(x ^ 0x55 for x in desc['seed'])
            dbfile = (1).to_bytes(4, 'little') + bytes(12) + desc['program_id'].to_bytes(8, 'little') + wrong + bytes(8)
            sdb.load_seeddb(io.BytesIO(dbfile))
            seed_arg = None
        via_db = False
        if mode == 'normal' and desc['seed'] is not None and case['seed'] % 3 == 1:
            # the RIGHT seed does not come as an argument but through a seed database FILE (several entries, ours somewhere among
            # them; sometimes written by save_seeddb from another in-memory database first)
            via_db = True
            others = Rng(case['seed'] + 31)
            ents = [(others.getrandbits(64), others.rbytes(16)) for _ in range(others.randint(0, 3))]
            ents.insert(others.randint(0, len(ents)), (desc['program_id'], desc['seed']))
            dbfile = len(ents).to_bytes(4, 'little') + bytes(12) + b''.join(t.to_bytes(8, 'little') + sd + bytes(8) for t, sd in ents)
            if case['seed'] % 2:
                sdb.load_seeddb(io.BytesIO(dbfile))
                out = io.BytesIO()
                sdb.save_seeddb(out)
                dbfile = out.getvalue()
                envsetup.reset_seeddb()
            sdb.load_seeddb(io.BytesIO(dbfile))
            seed_arg = None
        base = io.BytesIO(file_bytes)
        base.seek(start)
        eng = e.CryptoEngine()
        mon, key = [], None
        outs, models = [], []
        info_d = {'sibling content opened first:%s' % (case['seed'] % 2 == 0 and not assume): 1, 'right seed through a seeddb file:%s' % via_db: 1,
                  'method:%d' % desc['crypto_method']: 1, 'mode:' + mode: 1, 'seeded:%d' % (desc['seed'] is not None): 1,
                  'fixed:%d' % desc['fixed_key']: 1, 'nocrypto:%d' % desc['no_crypto']: 1}
        rd = None
        try:
            rd = NCCHReader(base, crypto=eng, seed=seed_arg, assume_decrypted=assume, closefd=False)
            f = rd.flags
            kn = eng.key_normal
            hexk = lambda s: kn[s].hex() if s in kn else 'none'
            ex = 'none' if rd.exefs is None else ','.join(
                f'{(n.encode().hex() or "-")}:{en.offset}:{en.size}' for n, en in rd.exefs.entries.items())
            outs.append(f'ok cs={rd.content_size} pid={int(rd.partition_id, 16)} prog={int(rd.program_id, 16)} '
                        f'flags={f.crypto_method},{str(f.executable).lower()},{str(f.fixed_crypto_key).lower()},'
                        f'{str(f.no_romfs).lower()},{str(f.no_crypto).lower()},{str(f.uses_seed).lower()} '
                        f'slots={int(rd.main_keyslot)},{int(rd.extra_keyslot)} kmain={hexk(int(rd.main_keyslot))} kextra={hexk(0x44)} '
                        f'sections=' + ','.join(f'{int(s)}:{r.offset}:{r.size}:{r.iv}' for s, r in rd.sections.items()) +
                        f' exefs={ex}')
        except Exception as ex_:  # noqa
            outs.append('e:' + exc_name(ex_))
        if db_history:
            seed_arg = bytes(x ^ 0x55 for x in desc['seed'])       # what the database now says: the model takes it as the argument
            info_d['wrong seed through the seed database after a correct open'] = 1
        if via_db:
            seed_arg = desc['seed']       # what the database says for this program id: the model takes it as the argument
        m = drv.ask(('ncch-open', file_bytes, start, seed_arg if seed_arg is not None else 'none', int(assume), 0, blob))
        # non-vacuity of the one-image theorem of C04: its decidable geometry hypothesis on this image
        if rd is not None:
            info_d['one-image-hypotheses:' + drv.ask(('ncch-geom', file_bytes, start, seed_arg if seed_arg is not None else 'none', int(assume), 0, blob))] = 1
        # special / ranges are internal: print-only
        import re
        models.append(re.sub(r' special=\S* ', ' ', re.sub(r' ranges=\S* ', ' ', m + ' ')).strip())
        # ---- monitor: constructor outcome
        expect_ok = mode in ('normal', 'assume')
        if expect_ok and rd is None:
            mon.append(f'well-formed NCCH ({mode}) rejected: {outs[0]}')
            key = 'ncch.init'
        if mode == 'badseed' and rd is not None:
            mon.append('a seed that does not match the verification hash was accepted')
            key = 'ncch.seed'
        if mode == 'badseed' and rd is None and outs[0] != 'e:NCCHSeedError':
            mon.append(f'mismatching seed raised {outs[0]} instead of NCCHSeedError')
            key = 'ncch.seed'
        if rd is not None and expect_ok:
            lay = info['lay']
            todo = []
            if self.full:
                todo.append(('full', 7))
            else:
                todo.extend((n, SEC_NUM[n]) for n in self.sections_under_test if n in lay)
            for name, num in todo:
                plain = ncchbuild.decrypted_image(img, info, desc) if name == 'full' else info['plain'][name]
                if name == 'full' and desc['no_crypto']:
                    plain = img      # flagged unencrypted: the view is the raw window, flags untouched
                ln = len(plain)
                ops = gen_ops(rng, min(ln, 0x900), writes=False, queries=False)[:6]
                # make the offsets interesting: section / chunk boundaries
                extra = []
                for _ in range(6 if name == 'full' else 4):
                    b = rng.pick([0, 0x200, ln, ln - 0x200, 0x100, 0x188, 0x18B, 0x18D, 0x18F, 0x190] + [s * 0x200 for s, _ in lay.values()]
                                 if name == 'full' else [0, 0x200, ln])     # full: incl. the rewritten header flag bytes
                    off = max(0, b + rng.pick([-2, -1, 0, 1, 0x1FF, 0x200]))
                    extra += [['s', off, 0], ['r', rng.pick([1, 1, 2, 3, 4, 0x1FF, 0x200, 0x201, 0x400, 0x650])], ['t']]
                ops = [['r', -1], ['s', 0, 0]] + ops + extra
                try:
                    fh = rd.open_raw_section(NCCHSection(num))
                    ref_pos = 0
                    toks = []
                    for op in ops:
                        try:
                            if op[0] == 'r':
                                d = fh.read(op[1])
                                toks.append('b:' + (d.hex() or '-'))
                                exp = plain[ref_pos:] if op[1] < 0 else plain[ref_pos:ref_pos + op[1]]
                                if d != exp and not mon:
                                    mon.append(f'{name}: read({op[1]}) at {ref_pos} returned {len(d)} bytes differing from the plaintext')
                                    key = f'ncch.{name}.read'
                                ref_pos += len(exp)
                            elif op[0] == 's':
                                p = fh.seek(op[1], op[2])
                                toks.append('n:%d' % p)
                                ref_pos = p
                            else:
                                toks.append('n:%d' % fh.tell())
                        except Exception as ex_:  # noqa
                            toks.append('e:' + exc_name(ex_))
                            if not mon and not (op[0] == 's' and (op[2] not in (0, 1, 2) or op[1] < 0)):
                                mon.append(f'{name}: {op} raised {toks[-1]}')
                                key = f'ncch.{name}.raise'
                    outs.append(' '.join(toks))
                except Exception as ex_:  # noqa
                    outs.append('e:' + exc_name(ex_))
                    mon.append(f'open_raw_section({name}) raised {outs[-1]}')
                    key = f'ncch.{name}.open'
                models.append(drv.ask(('ncch-ops', file_bytes, start, seed_arg if seed_arg is not None else 'none', int(assume), 0,
                                       blob, num, tuple(tuple(o) for o in ops))))
            # nested readers (C03: ExeFS file bytes, RomFS listing)
            if not self.full and desc['exefs_files'] is not None and rd.exefs is not None:
                for n, content in desc['exefs_files']:
                    try:
                        got = rd.exefs.open(n).read()
                    except Exception as ex_:  # noqa
                        got = None
                    if got != content and not mon:
                        mon.append(f'ExeFS file {n!r} differs from the packed bytes')
                        key = 'ncch.exefs.file'
            if self.full and 'full' in [t[0] for t in todo]:
                self.reparse(rd, desc, info, img, eng, e, mon)
                if mon and key is None:
                    key = 'ncch.full.reparse'
            # a container whose file ends early (a partial download, a dump cut off): the view ends where the file ends, and every
            # piece-wise read is still the slice of the whole read - also when the cut is not on a 0x200 boundary
            if self.full and case['seed'] % 3 == 2 and not mon and not assume:
                cut = Rng(case['seed'] + 11).pick([1, 2, 0x1FF, 0x200, 0x201, 0x333])
                if cut + 0x200 < len(img):
                    info_d['truncated file'] = 1
                    spec = ncchbuild.decrypted_image(img, info, desc) if not desc['no_crypto'] else img
                    try:
                        tb = io.BytesIO(b'\xEE' * start + img[:len(img) - cut])
                        tb.seek(start)
                        rt = NCCHReader(tb, crypto=e.CryptoEngine(), seed=seed_arg, closefd=False, load_sections=False)
                        ft = rt.open_raw_section(NCCHSection.FullDecrypted)
                        whole = ft.read()
                        if whole != spec[:len(img) - cut]:
                            mon.append(f'file cut {cut} bytes short: the whole read has {len(whole)} bytes / differs from the decrypted '
                                       f'image as far as the file goes ({len(img) - cut} bytes)')
                            key = 'ncch.full.truncated'
                        r11 = Rng(case['seed'] + 12)
                        for _ in range(12):
                            off = max(0, len(whole) - r11.randint(0, 0x420))
                            n = r11.pick([1, 2, 5, 0x1FF, 0x200, 0x201, 0x400])
                            ft.seek(off)
                            if ft.read(n) != whole[off:off + n] and not mon:
                                mon.append(f'file cut {cut} bytes short: read({n}) at {off} is not the slice of the whole read')
                                key = 'ncch.full.truncated'
                        rt.close()
                    except Exception as ex_:  # noqa
                        mon.append(f'file cut {cut} bytes short: {exc_name(ex_)}')
                        key = 'ncch.full.truncated'
            # the same container through a reader created with load_sections=False (no nested ExeFS / RomFS readers are built, so
            # whatever the section views need has to be set up when they are first used): same bytes, in any order of first use
            if case['seed'] % 3 == 1 and not mon:
                info_d['second reader with load_sections=False'] = 1
                try:
                    b2 = io.BytesIO(file_bytes)
                    b2.seek(start)
                    rd2 = NCCHReader(b2, crypto=e.CryptoEngine(), seed=seed_arg, assume_decrypted=assume, closefd=False, load_sections=False)
                    order = list(todo)
                    Rng(case['seed'] + 9).shuffle(order)
                    # ... and the views are the CALLER's: each is read in two halves with whole reads of the FullDecrypted view (which
                    # goes through the reader's own section files) in between, then closed - after which the FullDecrypted view must
                    # still work.  A view that is really the reader's own file object fails one way or the other
                    if not desc['no_crypto'] and case['seed'] % 2 == 1:
                        spec_full = ncchbuild.decrypted_image(img, info, desc)
                        views = [(name, rd2.open_raw_section(NCCHSection(num))) for name, num in order if name != 'full']
                        halves = {}
                        for name, v in views:
                            halves[name] = v.read(len(info['plain'][name]) // 2 + 1)
                        mid = rd2.open_raw_section(NCCHSection.FullDecrypted).read()
                        for name, v in views:
                            got2 = halves[name] + v.read()
                            if got2 != info['plain'][name] and not mon:
                                mon.append(f'load_sections=False: the {name} view read in two halves around a FullDecrypted read differs '
                                           f'from the plaintext')
                                key = f'ncch.{name}.lazy'
                            v.close()
                        try:
                            again = rd2.open_raw_section(NCCHSection.FullDecrypted).read()
                        except Exception as ex_:  # noqa
                            again = 'e:' + exc_name(ex_)
                        if (mid != spec_full or again != spec_full) and not mon and not assume:
                            mon.append(f'load_sections=False: the FullDecrypted view differs from the decrypted image '
                                       f'({"after the section views were closed: " + str(again)[:40] if mid == spec_full else "between the halves"})')
                            key = 'ncch.full.lazy'
                    for name, num in order:
                        plain = ncchbuild.decrypted_image(img, info, desc) if name == 'full' else info['plain'][name]
                        if name == 'full' and desc['no_crypto']:
                            plain = img
                        try:
                            d2 = rd2.open_raw_section(NCCHSection(num)).read()
                        except Exception as ex_:  # noqa
                            mon.append(f'load_sections=False: the {name} view raised {exc_name(ex_)}')
                            key = f'ncch.{name}.lazy'
                            break
                        if d2 != plain:
                            mon.append(f'load_sections=False: the {name} view differs from the plaintext')
                            key = f'ncch.{name}.lazy'
                            break
                    rd2.close()
                except Exception as ex_:  # noqa
                    mon.append(f'load_sections=False: constructing the reader raised {exc_name(ex_)}')
                    key = 'ncch.init'
        real = ' | '.join(outs)
        model = ' | '.join(models)
        return CaseResult(real, model, mon, sig=str(hash(real)), key=key, info=info_d)

    def reparse(self, rd, desc, info, img, eng, e, mon):
        pass

    def shrink(self, case):
        d = case['desc']
        for k in ('romfs', 'logo', 'plain', 'extheader', 'gaps'):
            if d.get(k) is not None:
                yield dict(case, desc=dict(d, **{k: None}))
        if d['exefs_files']:
            for i in range(len(d['exefs_files'])):
                yield dict(case, desc=dict(d, exefs_files=d['exefs_files'][:i] + d['exefs_files'][i + 1:]))
        if case['start']:
            yield dict(case, start=0)

    def neighbours(self, case, rng):
        for i in range(60):
            c = self.gen(rng, 'quick', i)
            c['mode'] = 'normal'
            yield c


class C03(NcchCheck):
    prop = 'C03'
    rule = ('NCCH images from an independent builder over crypto method {0,1,0xA,0xB} x seed x fixed zero/system key x '
            'no-crypto x assume-decrypted, ExeFS layouts of 0-7 files (icon/banner/.code/logo/others, sizes incl. 0 and '
            'exact multiples of 0x200, adjacent secondary-key files), optional extheader/logo/plain/romfs, gaps, start '
            'offsets; plus wrong seed / missing seed; every section view is read whole and at boundary-centred (offset, '
            'length) pairs; nested ExeFS files compared with the packed bytes; non-trivial = always (each image differs)')
    trusted_base = [
        'Lean 4.33 kernel; axioms propext, Classical.choice, Quot.sound only',
        'the independent Python NCCH builder (3dbrew layout + documented scrambler + ECB keystream) is the specification',
        'AES and SHA-256 are parameters in the theorems; Lean instances validated against PyCryptodome/hashlib',
        'stack semantics of the views (window / CTR / merged) come from the C09/C01 refinement theorems',
    ]
    assumptions = ['sections do not overlap', 'seed database holds at most the seed passed in']


CHECK = C03()
