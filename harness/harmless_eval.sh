#!/bin/bash
# usage: harness/harmless_eval.sh <name> [<patch.diff>]   -- applies a behaviour-preserving refactoring of pyctr (archived as
# seeded-harmless/<name>.diff) to /repo, runs EVERY claimed check (quick tier), restores /repo; any non-zero exit is an alarm
# raised on code where the properties hold.
cd "$(dirname "$0")/.."
name="$1"; src="${2:-seeded-harmless/$name.diff}"
[ -f "$src" ] || { echo "no such diff: $src"; exit 2; }
[ "$src" = "seeded-harmless/$name.diff" ] || cp "$src" "seeded-harmless/$name.diff"
if [ -n "$(git -C /repo status --porcelain)" ]; then echo "/repo is not clean"; exit 2; fi
git -C /repo apply "$(pwd)/seeded-harmless/$name.diff" || { echo "$name: patch does not apply"; exit 2; }
props=$(/venv/bin/python -c "import json; print(' '.join(c['property_id'] for c in json.load(open('MANIFEST.json'))['checks']))")
alarms=0
for p in $props; do
  out=$(timeout 3600 ./check $p --tier quick 2>&1); rc=$?
  if [ $rc -ne 0 ]; then echo "$name: ALARM $p rc=$rc :: $(echo "$out" | grep -v KNOWN | tail -2 | tr '\n' ' ')"; alarms=$((alarms+1)); fi
done
git -C /repo checkout -- pyctr
echo "$name: alarms=$alarms"
