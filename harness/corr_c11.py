"""C11 — title metadata: parse/serialise are inverse and every record is hash-protected."""
import hashlib
import io
import struct

from common import exc_name, sexp
from framework import CaseResult, Check

SIG = {0x10000: (0x200, 0x3C), 0x10001: (0x100, 0x3C), 0x10002: (0x3C, 0x40), 0x10003: (0x200, 0x3C),
       0x10004: (0x100, 0x3C), 0x10005: (0x3C, 0x40)}
CANON_FLAG_BITS = [0, 1, 2, 14, 15]


def hx(b):
    return b.hex() or '-'


def build_tmd(rng, n_chunks, n_info, canonical=True):
    """an independent TMD builder (3dbrew layout); returns (bytes, layout info)"""
    st = rng.pick(sorted(SIG))
    sz, pad = SIG[st]
    sig = rng.rbytes(sz)
    special = [0, 0x7F, 0x80, 0xFF]
    issuer = bytes(rng.pick(b'Root-CA0123456789abcdefXYZ') for _ in range(rng.randint(0, 64)))
    if rng.chance(0.2):
        issuer = issuer[:10] + b'\0' + issuer[10:40]
    hdr = bytearray()
    hdr += issuer.ljust(64, b'\0')[:64]
    hdr += bytes(rng.pick(special + [rng.randrange(256)]) for _ in range(4))
    hdr += rng.rbytes(8)
    cat = rng.pick([0, 1, 2, 4, 8, 0x10, 0x20, 0x40, 0x80, 0x100, 0x200, 0x400, 0x4000, 0x8000, 0xFFFF, rng.getrandbits(16)])
    hdr += rng.rbytes(2) + cat.to_bytes(2, 'big') + rng.rbytes(4)      # title id
    hdr += rng.rbytes(4) + rng.rbytes(2)                                 # title type, group id
    hdr += rng.pick([0, 1, 0xFFFFFFFF, rng.getrandbits(32)]).to_bytes(4, 'little')
    hdr += rng.pick([0, 1, 0xFFFFFFFF, rng.getrandbits(32)]).to_bytes(4, 'little')
    hdr += rng.rbytes(4)
    hdr += bytes([rng.pick(special + [rng.randrange(256)])])
    hdr += bytes(rng.pick(special + [rng.randrange(256)]) for _ in range(0x31))
    hdr += rng.rbytes(4)
    hdr += rng.getrandbits(16).to_bytes(2, 'big')
    hdr += n_chunks.to_bytes(2, 'big')
    hdr += rng.rbytes(2) + rng.rbytes(2)
    chunks = []
    seen = set()
    for i in range(n_chunks):
        while True:
            flags = sum(1 << b for b in CANON_FLAG_BITS if rng.chance(0.4)) if canonical else rng.getrandbits(16)
            c = rng.rbytes(4) + (i if rng.chance(0.8) else rng.getrandbits(16)).to_bytes(2, 'big') + flags.to_bytes(2, 'big') + \
                rng.pick([0, 1, rng.getrandbits(40), rng.getrandbits(64)]).to_bytes(8, 'big') + rng.rbytes(32)
            if c not in seen:
                seen.add(c)
                break
        chunks.append(c)
    # info records: contiguous groups, usually from chunk 0 (sometimes the first records are not covered by any group) ...
    infos, covered, pos = [], [], 0
    if n_chunks >= 3 and n_info >= 1 and n_info < 32 and rng.chance(0.15):
        pos = rng.randint(1, 2)
    for k in range(n_info):
        left = n_chunks - pos
        if n_info >= 32:
            cnt = left if k == n_info - 1 else min(left, 1)
        else:
            cnt = left if k == n_info - 1 and rng.chance(0.7) else rng.randint(0, max(left, 0))
        if k > 0 and cnt == 0 and pos == 0:
            cnt = 0
        grp = chunks[pos:pos + cnt]
        rec = pos.to_bytes(2, 'big') + cnt.to_bytes(2, 'big') + hashlib.sha256(b''.join(grp)).digest()
        if rec == b'\0' * 0x24:
            continue
        infos.append(rec)
        covered.extend(range(pos, pos + cnt))
        pos += cnt
    # ... and the groups need not be LISTED in content order: each info record names its own index offset
    if len(infos) >= 2 and rng.chance(0.3):
        rng.shuffle(infos)
    info_block = b''.join(infos).ljust(0x900, b'\0')
    hdr += hashlib.sha256(info_block).digest()
    assert len(hdr) == 0xC4
    b = st.to_bytes(4, 'big') + sig + b'\0' * pad + bytes(hdr) + info_block + b''.join(chunks)
    h0 = 4 + sz + pad
    return b, {'info_off': h0 + 0xC4, 'chunk_off': h0 + 0xC4 + 0x900, 'covered': covered, 'n_chunks': n_chunks}


def render(t):
    v = t.title_version
    return ('(t %d %s %s %d %d %d %d %s %s %s %s %d %d %s %d %s %s (%d %d %d) %s %s (%s) (%s))' % (
        t.signature[0], hx(t.signature[1]), hx(t._u_issuer.encode('ascii')), t._u_version, t._u_ca_crl_version,
        t._u_signer_crl_version, t._u_reserved1, hx(t._u_system_version), hx(bytes.fromhex(t.title_id)),
        hx(t._u_title_type), hx(t._u_group_id), t.save_size, t.srl_save_size, hx(t._u_reserved2), t._u_srl_flag,
        hx(t._u_reserved3), hx(t._u_access_rights), v.major, v.minor, v.micro, hx(t._u_boot_count), hx(t._u_padding),
        ' '.join('(%d %d %s)' % (r.index_offset, r.command_count, hx(r.hash)) for r in t.info_records),
        ' '.join('(%s %d %d %d %s)' % (hx(bytes.fromhex(r.id)), r.cindex, int(r.type), r.size, hx(r.hash))
                 for r in t.chunk_records)))


def ename(e):
    if isinstance(e, struct.error) or isinstance(e, OverflowError):
        return 'struct.error'
    return exc_name(e)


class C11(Check):
    prop = 'C11'
    rule = ('well-formed TMDs from an independent builder (all six signature types, issuers 0-64 ASCII chars incl. inner '
            'NUL, single-byte fields from {0,0x7F,0x80,0xFF,random}, category words incl. every single bit and 0xFFFF, info groups '
            'listed in or out of content order and not always starting at content 0, '
            'save sizes incl. 0 and 2^32-1, 0-64 info records over contiguous chunk groups, 0-300 chunk records); '
            'fault stream: single-bit flips and byte substitutions inside the info block and inside covered chunk '
            'records, truncations, bad signature types, non-canonical flag words, duplicate chunk records; both '
            'directions (bytes->object->bytes and object->bytes->object); non-trivial = loaded at least one record or raised')
    trusted_base = [
        'Lean 4.33 kernel; axioms propext, Classical.choice, Quot.sound only',
        'SHA-256 is a parameter H in the theorems (tamper theorems conclude "... or Collision H")',
        'struct.pack range/padding semantics and int.to_bytes are modelled (packS, toBE/toLE, range guards)',
        'harness: independent TMD builder (3dbrew layout), generator, canonical rendering, hashlib monitor',
    ]
    assumptions = ['the file object behaves like io.BytesIO']

    def budget(self, tier):
        return 120 if tier == 'quick' else 1200

    def gen_object(self, rng):
        st = rng.pick(sorted(SIG))
        n = rng.randint(0, 6)
        chunks = [[rng.rbytes(4), rng.getrandbits(16), sum(1 << b for b in CANON_FLAG_BITS if rng.chance(0.4)),
                   rng.getrandbits(rng.pick([8, 40, 64])), rng.rbytes(32)] for _ in range(n)]
        issuer = bytes(rng.pick(b'Root-CA0123456789abcdef') for _ in range(rng.randint(0, 64)))
        return {'object': {
            'sig': [st, rng.rbytes(SIG[st][0])], 'issuer': issuer,
            'b': [rng.pick([0, 0x7F, 0x80, 0xFF, rng.randrange(256)]) for _ in range(5)],
            'sysver': rng.rbytes(8), 'tid': rng.rbytes(8), 'ttype': rng.rbytes(4), 'gid': rng.rbytes(2),
            'save': rng.pick([0, 0xFFFFFFFF, rng.getrandbits(32)]), 'srl': rng.pick([0, 0xFFFFFFFF, rng.getrandbits(32)]),
            'r2': rng.rbytes(4), 'r3': rng.rbytes(0x31), 'ar': rng.rbytes(4),
            'ver': [rng.randrange(64), rng.randrange(64), rng.randrange(16)], 'boot': rng.rbytes(2), 'pad': rng.rbytes(2),
            'chunks': chunks, 'split': rng.randint(0, n)}}

    def run_object(self, case, drv):
        from pyctr.type.tmd import (TitleMetadataReader, ContentChunkRecord, ContentInfoRecord, ContentTypeFlags,
                                    TitleVersion)
        o = case['object']
        crs = [ContentChunkRecord(id=c[0].hex(), cindex=c[1], type=ContentTypeFlags.from_int(c[2]), size=c[3], hash=c[4])
               for c in o['chunks']]
        raw = [c[0] + c[1].to_bytes(2, 'big') + c[2].to_bytes(2, 'big') + c[3].to_bytes(8, 'big') + c[4] for c in o['chunks']]
        sp = o['split']
        groups = [(0, sp), (sp, len(raw) - sp)] if sp else [(0, len(raw))]
        irs = [ContentInfoRecord(a, n, hashlib.sha256(b''.join(raw[a:a + n])).digest()) for a, n in groups
               if not (a == 0 and n == 0)]
        if len(set(raw)) != len(raw):
            irs = []
        t = TitleMetadataReader(title_id=o['tid'].hex(), save_size=o['save'], srl_save_size=o['srl'],
                                title_version=TitleVersion(*o['ver']), title_content_categories=[], info_records=irs,
                                chunk_records=crs, signature=(o['sig'][0], o['sig'][1]),
                                _u_issuer=o['issuer'].decode('ascii'), _u_version=o['b'][0], _u_ca_crl_version=o['b'][1],
                                _u_signer_crl_version=o['b'][2], _u_reserved1=o['b'][3], _u_system_version=o['sysver'],
                                _u_title_type=o['ttype'], _u_group_id=o['gid'], _u_reserved2=o['r2'], _u_srl_flag=o['b'][4],
                                _u_reserved3=o['r3'], _u_access_rights=o['ar'], _u_boot_count=o['boot'], _u_padding=o['pad'])
        mon, key = [], None
        try:
            b = bytes(t)
            real = hx(b)
            t2 = TitleMetadataReader.load(io.BytesIO(b))
            if render(t2) != render(t):
                mon.append('load(bytes(t)) differs from the constructed object')
                key = 'tmd.object-roundtrip'
        except Exception as e:  # noqa
            real = 'e:' + ename(e)
            mon.append(f'constructed object failed to round-trip: {real}')
            key = 'tmd.object-roundtrip'
        model = drv.ask(('tmd-ser', render(t)))
        return CaseResult(real, model, mon, sig=real[:64], key=key, info={'kind:object': 1})

    def gen(self, rng, tier, i):
        if rng.chance(0.2):
            return self.gen_object(rng)
        n_chunks = rng.pick([0, 1, 2, 3, 5, 17, rng.randint(0, 40), rng.randint(0, 300) if tier == 'thorough' else 9])
        n_info = rng.pick([0, 1, 1, 2, 3, rng.randint(0, 8), 64 if rng.chance(0.05) else 2])
        canonical = rng.chance(0.85)
        b, lay = build_tmd(rng, n_chunks, n_info, canonical)
        case = {'tmd': b, 'verify': int(rng.chance(0.85)), 'tamper': None, 'lay': lay, 'canonical': canonical}
        r = rng.random()
        if r < 0.45:
            # fault inside the info block or a covered chunk record
            if lay['covered'] and rng.chance(0.6):
                c = rng.pick(lay['covered'])
                pos = lay['chunk_off'] + 0x30 * c + rng.randrange(0x30)
            else:
                used = 0x24 * max(1, n_info)
                pos = lay['info_off'] + (rng.randrange(used) if rng.chance(0.7) else rng.randrange(0x900))
            mask = (1 << rng.randrange(8)) if rng.chance(0.6) else rng.randrange(1, 256)
            case['tamper'] = ['protected', pos, mask]
        elif r < 0.55:
            k = rng.pick(['trunc', 'sigtype', 'dupchunk', 'header'])
            case['tamper'] = [k, rng.randrange(max(1, len(b))), rng.randrange(1, 256)]
        return case

    def exhaustive(self, tier):
        # every 16-bit category word must load (thorough); a sample in the quick tier
        rngx = __import__('common').Rng(7)
        words = range(0x10000) if tier == 'thorough' else list(range(0, 0x10000, 257)) + [1 << k for k in range(16)]
        b, lay = build_tmd(rngx, 1, 1)
        h = lay['info_off'] - 0xC4
        for w in words:
            bb = bytearray(b)
            bb[h + 0x4E:h + 0x50] = w.to_bytes(2, 'big')
            yield {'tmd': bytes(bb), 'verify': 1, 'tamper': None, 'lay': lay, 'canonical': True}
        # boundary record counts: every info-record slot in use (63 / 64 records), clean and with a fault in the
        # last slot / in a chunk record covered by the last info record
        for n_info in (63, 64):
            for k in range(3):
                b2, lay2 = build_tmd(rngx, 64 + k, n_info)
                yield {'tmd': b2, 'verify': 1, 'tamper': None, 'lay': lay2, 'canonical': True}
                last_slot = lay2['info_off'] + 0x24 * (n_info - 1) + 5
                yield {'tmd': b2, 'verify': 1, 'tamper': ['protected', last_slot, 0x10], 'lay': lay2, 'canonical': True}
                if lay2['covered']:
                    pos = lay2['chunk_off'] + 0x30 * lay2['covered'][-1] + 0x0F
                    yield {'tmd': b2, 'verify': 1, 'tamper': ['protected', pos, 0x01], 'lay': lay2, 'canonical': True}

    def run_case(self, case, drv):
        from pyctr.type.tmd import TitleMetadataReader, TitleMetadataError, ContentCategories
        if 'object' in case:
            return self.run_object(case, drv)
        b = bytearray(case['tmd'])
        lay, verify, tam = case['lay'], bool(case['verify']), case['tamper']
        orig = bytes(b)
        mon, key = [], None
        info = {'verify:%d' % verify: 1, 'tamper:%s' % (tam[0] if tam else 'none'): 1}
        if tam:
            k, pos, mask = tam
            if k == 'protected':
                b[pos] ^= mask
            elif k == 'trunc':
                b = b[:pos]
            elif k == 'sigtype':
                b[0:4] = (0x10006 + mask).to_bytes(4, 'big')
            elif k == 'dupchunk' and lay['n_chunks'] >= 2:
                co = lay['chunk_off']
                b[co + 0x30:co + 0x60] = b[co:co + 0x30]
            elif k == 'header':
                h = lay['info_off'] - 0xC4
                b[h + (pos % 0xA4)] ^= mask
        b = bytes(b)
        outs = []
        t = None
        if tam and tam[0] == 'protected' and verify and tam[1] % 2 == 0:
            # history: other loads happened in this process before the altered image arrives for verification - the genuine image
            # (verified or not), and the ALTERED image itself looked at without verification; none of them may leave anything
            # behind that lets the verified load of the altered image succeed
            hist = [(('genuine', True),), (('altered', False),), (('genuine', False), ('altered', False)),
                    (('altered', False), ('genuine', True), ('altered', False))][(tam[1] // 2) % 4]
            info['prior loads:' + '+'.join(f'{w}/{"v" if v else "nv"}' for w, v in hist)] = 1
            for which, v in hist:
                try:
                    TitleMetadataReader.load(io.BytesIO(orig if which == 'genuine' else b), verify_hashes=v)
                except Exception:  # noqa
                    pass
        try:
            t = TitleMetadataReader.load(io.BytesIO(b), verify_hashes=verify)
            outs.append(render(t))
        except Exception as e:  # noqa
            outs.append('e:' + ename(e))
            exc = e
        if t is not None:
            try:
                outs.append(hx(bytes(t)))
            except Exception as e:  # noqa
                outs.append('e:' + ename(e))
        else:
            outs.append(outs[0])
        models = [drv.ask(('tmd-load', b, int(verify))), drv.ask(('tmd-roundtrip', b, int(verify)))]
        # ---- monitors (independent of the model)
        wf = tam is None and case['canonical']
        if wf:
            if t is None:
                mon.append(f'well-formed TMD rejected: {outs[0]}')
                key = 'tmd.load'
            elif outs[1] != hx(b):
                mon.append('bytes(load(b)) != b')
                key = 'tmd.roundtrip'
            else:
                try:
                    t2 = TitleMetadataReader.load(io.BytesIO(bytes(t)))
                    if render(t2) != render(t) or t2.title_content_categories != t.title_content_categories:
                        mon.append('load(bytes(t)) differs from t')
                        key = 'tmd.roundtrip2'
                except Exception as e:  # noqa
                    mon.append(f'load(bytes(t)) raised {ename(e)}')
                    key = 'tmd.roundtrip2'
        if tam and tam[0] == 'protected' and verify:
            if t is None:
                if not isinstance(exc, TitleMetadataError):
                    mon.append(f'tampered TMD raised a non-TMD error: {ename(exc)}')
                    key = 'tmd.tamper-error'
            else:
                t0 = TitleMetadataReader.load(io.BytesIO(orig), verify_hashes=False)
                if t.info_records != t0.info_records or t.chunk_records != t0.chunk_records:
                    mon.append(f'tampered byte {tam[1]:#x} accepted with different records')
                    key = 'tmd.tamper'
        real = ' | '.join(outs)
        model = ' | '.join(models)
        return CaseResult(real, model, mon, sig=hashlib.sha256(real.encode()).hexdigest()[:16], key=key, info=info)

    def shrink(self, case):
        return []

    def neighbours(self, case, rng):
        for i in range(150):
            yield self.gen(rng, 'quick', i)


class C11b:
    pass


CHECK = C11()
