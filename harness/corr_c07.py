"""C07 — ExeFS reader reproduces entries and bytes and honours documented name aliases."""
import io

from common import exc_name, unhex
from filestack import LogBytesIO
from framework import CaseResult, Check

REAL_NAMES = [b'.code', b'banner', b'icon', b'logo', b'frndseed', b'movable', b'otp', b'hwcal0', b'nand_cid', b'secinfo']
ALPHA = b'abcdefghijklmnopqrstuvwxyz.ABZ_0129'


def gen_name(rng):
    if rng.chance(0.4):
        return rng.pick(REAL_NAMES)
    n = rng.randint(1, 8)
    return bytes(rng.pick(ALPHA) for _ in range(n))


def render(entries):
    return ' '.join(f'{(e.name.encode("ascii").hex() or "-")}:{e.offset}:{e.size}:{e.hash.hex() or "-"}' for e in entries)


class C07(Check):
    prop = 'C07'
    rule = ('well-formed stream: tables of 0-10 entries at random slot positions, names of every length 1-8 (real ExeFS '
            'names and random [a-z.A-Z0-9_], plus stored decoys N.bin next to N; per reader a history of 3-8 opens over a small pool of spellings x normalize on/off), sizes {0,1,0x1FF,0x200,random}, 0x200-aligned offsets, random hashes, '
            'optionally at a non-zero start offset inside a larger file; header built by the Lean spec `Exefs.build`; '
            'every stored name is opened as N, /N, N.bin, /N.bin and read at random (offset, length); '
            'malformed stream: unaligned offsets, bytes >= 0x80 in names (single bytes and well-formed UTF-8 sequences), duplicate names, short headers, random '
            'headers; non-trivial = at least one entry parsed or an error raised; distinct = hash(case, outputs)')
    trusted_base = [
        'Lean 4.33 kernel; axioms propext, Classical.choice, Quot.sound only',
        'Exefs.build is the specification of a well-formed ExeFS header (3dbrew layout, trusted)',
        'names are modelled as ASCII byte strings; str.lower()/endswith are modelled for ASCII only',
        'harness generator, canonicalisation and the direct table-vs-reader monitor',
    ]
    assumptions = ['entry data lies inside the file', 'one thread', 'not closed']

    def budget(self, tier):
        return 150 if tier == "quick" else 1500

    def gen(self, rng, tier, i):
        malformed = rng.chance(0.3)
        table = [None] * 10
        names = set()
        data_off = 0
        for slot in rng.sample(range(10), rng.randint(0, 10)):
            name = gen_name(rng)
            if name in names or name.lower().endswith(b'.bin'):
                continue
            names.add(name)
            size = rng.pick([0, 1, 0x1FF, 0x200, 0x201, rng.randint(0, 0x500)])
            table[slot] = [name, data_off, size, rng.rbytes(32)]
            data_off += (size + 0x1FF) // 0x200 * 0x200
            if rng.chance(0.2):
                data_off += 0x200
        # decoys: a stored name that IS an alias spelling of another stored name ('data' next to 'data.bin'); the aliases of
        # 'data' must keep resolving to 'data' (names ending in '.bin' have no aliases of their own, as in the property)
        free = [k for k in range(10) if table[k] is None]
        short = [t[0] for t in table if t is not None and len(t[0]) <= 4]
        if free and short and rng.chance(0.35):
            size = rng.pick([1, 0x200, rng.randint(1, 0x300)])
            table[rng.pick(free)] = [rng.pick(short) + rng.pick([b'.bin', b'.bin', b'.BIN']), data_off, size, rng.rbytes(32)]
            data_off += (size + 0x1FF) // 0x200 * 0x200
        case = {'table': table, 'start': rng.pick([0, 0, 0x10, 0x1234]), 'data': rng.rbytes(min(data_off, 0x3000) + rng.pick([0, 7])),
                'mut': None, 'seed': rng.getrandbits(32)}
        if malformed:
            k = rng.pick(['unaligned', 'nonascii', 'utf8name', 'utf8name', 'dup', 'short', 'random', 'zeroname'])
            case['mut'] = [k, rng.randrange(10), rng.randrange(8), rng.randrange(1, 0x200), rng.rbytes(0x200)]
        return case

    def run_case(self, case, drv):
        from pyctr.type.exefs import ExeFSReader
        from common import Rng
        rng = Rng(case['seed'])
        table = case['table']
        wire = tuple('none' if t is None else (t[0], t[1], t[2], t[3]) for t in table)
        header = bytearray(unhex(drv.ask(('exefs-build', wire))))
        mon, key = [], None
        info = {'entries:%d' % sum(t is not None for t in table): 1}
        mut = case['mut']
        wf = True
        if mut:
            wf = False
            k, slot, j, v, rnd = mut
            info['mut:' + k] = 1
            if k == 'unaligned':
                header[16 * slot + 8:16 * slot + 12] = (v | 1).to_bytes(4, 'little')
            elif k == 'nonascii':
                header[16 * slot + j] = 0x80 | (v & 0x7F)
            elif k == 'utf8name':
                # a name that is well-formed UTF-8 (or Latin-1 / Shift-JIS looking) but not ASCII, on an occupied slot when there is one
                occ = [i for i, t in enumerate(table) if t is not None]
                slot = occ[slot % len(occ)] if occ else slot
                nm = [b'caf\xc3\xa9', b'\xe3\x81\x82bc', b'\xc2\xa0logo', b'ic\xc3\xb6n', b'\xf0\x9f\x98\x80', b'na\xc3\xafve\xc2\xb7'][v % 6]
                header[16 * slot:16 * slot + 8] = nm.ljust(8, b'\0')[:8]
                if not any(header[16 * slot + 8:16 * slot + 16]):
                    header[16 * slot + 12:16 * slot + 16] = (0x10).to_bytes(4, 'little')     # make the slot an entry
            elif k == 'dup':
                header[16 * slot:16 * slot + 8] = header[16 * ((slot + 1) % 10):16 * ((slot + 1) % 10) + 8]
            elif k == 'short':
                header = header[:v]
            elif k == 'random':
                header = bytearray(rnd)
            elif k == 'zeroname':
                header[16 * slot:16 * slot + 8] = b'\0' * 8
        header = bytes(header)
        file_bytes = b'\xEE' * case['start'] + header + case['data']
        header = file_bytes[case['start']:case['start'] + 0x200]   # what the reader actually sees
        base = LogBytesIO(file_bytes)
        base.seek(case['start'])
        outs = []
        try:
            rd = ExeFSReader(base, closefd=False, _load_icon=False)
            outs.append('ok ' + render(rd.entries.values()))
        except Exception as e:  # noqa
            rd = None
            outs.append('e:' + exc_name(e))
        models = [drv.ask(('exefs-parse', header))]
        if rd is not None and len(header) >= 0xA0:
            # whatever the header is (also fuzzed ones): an ACCEPTED header has no entry (= slot that is not 16 zero bytes) with
            # a misaligned offset or a non-ASCII name - independent of the sizes, the data and the order of the slots
            for i in range(10):
                raw = header[16 * i:16 * i + 16]
                if raw == bytes(16):
                    continue
                if int.from_bytes(raw[8:12], 'little') % 0x200:
                    mon.append(f'accepted a header whose slot {i} has offset {int.from_bytes(raw[8:12], "little"):#x} (size '
                               f'{int.from_bytes(raw[12:16], "little")}): not a multiple of 0x200')
                    key = 'exefs.accept'
                    break
                if any(b >= 0x80 for b in raw[:8]):
                    mon.append(f'accepted a header whose slot {i} has the non-ASCII name {raw[:8].hex()}')
                    key = 'exefs.accept'
                    break
        nontrivial = outs[0] != 'ok '
        if wf:
            # direct monitor: the reader reports exactly the packed table, in slot order
            exp = 'ok ' + ' '.join(f'{t[0].hex()}:{t[1]}:{t[2]}:{t[3].hex()}' for t in table if t is not None)
            if outs[0] != exp:
                mon.append(f'entries differ from the packed table: {outs[0][:120]} vs {exp[:120]}')
                key = 'exefs.entries'
        if rd is not None:
            stored = [t for t in table if t is not None] if wf else []
            for t in stored:
                if t[0].lower().endswith(b'.bin'):
                    info['decoy: stored name that is an alias spelling of another'] = 1
                    continue
                name = t[0].decode('ascii')
                lo = case['start'] + 0x200 + t[1]
                content = file_bytes[lo:lo + t[2]]
                for spelling in (name, '/' + name, name + '.bin', '/' + name + '.bin', name + '.BIN'):
                    off, ln = rng.randint(0, t[2] + 2), rng.randint(-1, t[2] + 3)
                    try:
                        f = rd.open(spelling)
                        f.seek(off)
                        got = f.read(ln)
                        tok = 'ok ' + got.hex()
                        exp = content[off:] if ln < 0 else content[off:off + ln]
                        if got != exp:
                            mon.append(f'open({spelling!r}).read at {off},{ln} returned wrong bytes')
                            key = 'exefs.read'
                    except Exception as e:  # noqa
                        tok = 'e:' + exc_name(e)
                        mon.append(f'open({spelling!r}) raised {tok}')
                        key = 'exefs.alias'
                    outs.append(tok)
                    m = drv.ask(('exefs-lookup', header, spelling.encode('ascii'), 1))
                    if m.startswith('ok '):
                        _, o, s, _ = m[3:].split(':')
                        mo = drv.ask(('fileops', ('sub', case['start'] + 0x200 + int(o), int(s), ('bio', file_bytes)),
                                      (('s', off, 0), ('r', ln))))
                        m = 'ok ' + mo.split(' ')[1][2:].replace('-', '')
                    models.append(m)
            # a history of opens on the SAME reader: spellings drawn from a small pool (so that one path string comes back), each with
            # normalize on or off (off = the verbatim stored name, documented for names that really end in '.bin')
            by_name = {}
            for t in stored:
                by_name.setdefault(t[0].decode('ascii'), t)       # dict semantics of duplicates never arise: names are distinct
            pool = []
            for t in stored[:3]:
                nm = t[0].decode('ascii')
                base = nm[:-4] if nm.lower().endswith('.bin') else nm
                pool += [base, '/' + base, base + '.bin', '/' + base + '.bin']
            if pool:
                hist = [(rng.pick(pool), rng.chance(0.5)) for _ in range(rng.randint(3, 8))]
                info['open history with normalize=False'] = 1
                for spelling, nrm in hist:
                    want_name = spelling
                    if nrm:
                        want_name = want_name[1:] if want_name.startswith('/') else want_name
                        want_name = want_name[:-4] if want_name.lower().endswith('.bin') else want_name
                    t = by_name.get(want_name)
                    try:
                        got = rd.open(spelling, normalize=nrm).read()
                        tok = 'ok ' + got.hex()
                        if t is None:
                            mon.append(f'open({spelling!r}, normalize={nrm}) succeeded after {hist}: no entry is named {want_name!r}')
                            key = 'exefs.missing'
                        elif got != file_bytes[case['start'] + 0x200 + t[1]:case['start'] + 0x200 + t[1] + t[2]]:
                            mon.append(f'open({spelling!r}, normalize={nrm}) returned the bytes of another entry (history {hist})')
                            key = 'exefs.read'
                    except Exception as e:  # noqa
                        tok = 'e:' + exc_name(e)
                        if t is not None:
                            mon.append(f'open({spelling!r}, normalize={nrm}) raised {tok} for the stored entry {want_name!r} (history {hist})')
                            key = 'exefs.alias'
                    outs.append(tok)
                    m = drv.ask(('exefs-lookup', header, spelling.encode('ascii'), int(nrm)))
                    if m.startswith('ok '):
                        _, o, sz, _ = m[3:].split(':')
                        m = 'ok ' + file_bytes[case['start'] + 0x200 + int(o):case['start'] + 0x200 + int(o) + int(sz)].hex()
                    models.append(m)
            # decompress_code() on whatever '.code' holds (mostly not a valid LZSS image: the call raises): a call that FAILS must leave
            # the reader as it was - the same names, and '.code-decompressed' not found; a call that succeeds adds exactly that name
            if wf and '.code' in by_name:
                names_before = [n for n in rd.entries]
                try:
                    rd.decompress_code()
                    tok = 'dec:ok'
                except Exception as e:  # noqa
                    tok = 'dec:e:' + exc_name(e)
                names_after = [n for n in rd.entries]
                info['decompress_code ' + ('raised' if tok != 'dec:ok' else 'succeeded')] = 1
                if tok != 'dec:ok':
                    if names_after != names_before:
                        mon.append(f'decompress_code() raised {tok[6:]} and left the entries {names_after} (before: {names_before})')
                        key = 'exefs.entries'
                    try:
                        rd.open('.code-decompressed').close()
                        mon.append('open(\'.code-decompressed\') succeeded after decompress_code() had raised: no such entry is stored')
                        key = 'exefs.missing'
                    except Exception as e:  # noqa
                        if exc_name(e) != 'ExeFSFileNotFoundError':
                            mon.append(f'open(\'.code-decompressed\') raised {exc_name(e)} instead of the not-found error')
                            key = 'exefs.missing'
                elif names_after != names_before + ['.code-decompressed'] and names_after != names_before:
                    mon.append(f'decompress_code() succeeded and left the entries {names_after}')
                    key = 'exefs.entries'
            # names that are not stored
            for _ in range(3):
                probe = gen_name(rng).decode('ascii')
                try:
                    rd.open(probe).close()
                    tok = 'ok'
                    if wf and probe.encode() not in [t[0] for t in stored] and not probe.lower().endswith('.bin'):
                        mon.append(f'open({probe!r}) succeeded for a name that is not stored')
                        key = 'exefs.missing'
                except Exception as e:  # noqa
                    tok = 'e:' + exc_name(e)
                    if wf and probe.encode() in [t[0] for t in stored]:
                        mon.append(f'open({probe!r}) raised {tok} for a stored name')
                        key = 'exefs.alias'
                outs.append(tok)
                m = drv.ask(('exefs-lookup', header, probe.encode('ascii'), 1))
                models.append('ok' if m.startswith('ok') else m)
        elif wf:
            mon.append(f'well-formed header rejected: {outs[0]}')
            key = 'exefs.reject'
        if mut and mut[0] == 'utf8name' and len(header) >= 0x200 and outs and outs[0] != 'e:ExeFSNameError':
            mon.append(f'a header with a non-ASCII entry name was not rejected with the name error: {outs[0][:60]}')
            key = 'exefs.nonascii'
        if mut and rd is not None and mut[0] in ('unaligned', 'nonascii'):
            # the mutation may have hit an empty slot; only flag when the model (= code semantics) says it must fail
            pass
        real = ' | '.join(outs)
        model = ' | '.join(models)
        return CaseResult(real, model, mon, sig=real[:200] if nontrivial else '', key=key, info=info)

    def shrink(self, case):
        t = case['table']
        for i in range(10):
            if t[i] is not None:
                yield dict(case, table=t[:i] + [None] + t[i + 1:])
        if case['start']:
            yield dict(case, start=0)

    def neighbours(self, case, rng):
        for i in range(200):
            c = self.gen(rng, 'quick', i)
            c['mut'] = None
            yield c


CHECK = C07()
