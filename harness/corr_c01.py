"""C01 — random-access AES-CTR reads equal whole-stream decryption (3DS and DSi mode)."""
from stackcheck import StackCheck, gen_ops

CTR_POOL = [0, 1, 0xFFFFFFFFFFFFFFFF, (1 << 64) - 3, (1 << 127) + 12345, (1 << 128) - 40, 0xDEADBEEF << 56]


def gen_crypto_node(rng, kind, lens):
    ln = rng.pick(lens)
    key = rng.rbytes(16)
    ctr = rng.pick(CTR_POOL + [rng.getrandbits(128) >> rng.pick([0, 8, 64])])
    if ctr + (ln + 40) // 16 + 2 >= 1 << 128:
        ctr = (1 << 128) - 40
    if rng.chance(0.5):
        base = ['bio', rng.rbytes(ln)]
    else:
        off = rng.randint(1, 37)
        base = ['sub', off, ln, ['bio', rng.rbytes(off + ln + rng.pick([0, 0, 3, 20]))]]
    return [kind, key, ctr, base], ln


class C01(StackCheck):
    prop = 'C01'
    rule = ('key, counter (incl. carries into the high half and values just below 2^128), flavour 3DS/DSi (chosen by '
            'create_ctr_io from the keyslot number), base BytesIO or SubsectionIO at non-zero offset, stream length '
            '0-100, op lists of 1-12 seek/read/tell with every residue mod 16, sizes -3..len+5, targets inside/at/'
            'after the end; real side = CryptoEngine.create_ctr_io, model side = CtrIO/TwlIO over the same stack; '
            'monitor = ECB keystream only; non-trivial = some op returned data or raised')
    trusted_base = [
        'Lean 4.33 kernel; axioms propext, Classical.choice, Quot.sound only',
        'AES-128 is a parameter E in the theorems; the driver instance (Prim/Aes.lean) is validated against PyCryptodome',
        'PyCryptodome CTR cipher-object protocol modelled by CtrObj (keystream continuity, direction lock)',
        'io.BytesIO modelled by PyFile; Driver knot nodeOps; harness generator and ECB monitor',
    ]
    assumptions = ['counter + blocks < 2^128 (as in the property)', 'one thread', 'not closed']

    def budget(self, tier):
        return 500 if tier == 'quick' else 4000

    def gen(self, rng, tier, i):
        node, ln = gen_crypto_node(rng, rng.pick(['ctr', 'twl']), [0, 1, 15, 16, 17, 31, 32, 40, 64, 100])
        return {'node': node, 'ops': gen_ops(rng, ln, writes=False, queries=False)}

    def exhaustive(self, tier):
        if tier != 'thorough':
            return
        key, ctr = bytes(range(16)), (1 << 64) - 2
        data = bytes((7 * i + 3) & 0xFF for i in range(60))
        for kind in ('ctr', 'twl'):
            for base in (['bio', data[:40]], ['sub', 5, 40, ['bio', data]]):
                for start in range(0, 17):
                    for n in list(range(0, 36)) + [-1]:
                        for pre in ([], [['r', 16]], [['r', 3]], [['s', 0, 1]]):
                            yield {'node': [kind, key, ctr, base], 'ops': pre + [['s', start, 1], ['r', n], ['t'], ['r', 5]]}


CHECK = C01()
