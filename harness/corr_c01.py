"""C01 — random-access AES-CTR reads equal whole-stream decryption (3DS and DSi mode)."""
from filestack import ctr_slot
from stackcheck import StackCheck, add_owner_moves, gen_ops

CTR_POOL = [0, 1, 0xFFFFFFFFFFFFFFFF, (1 << 64) - 3, (1 << 127) + 12345, (1 << 128) - 40, 0xDEADBEEF << 56]


def gen_crypto_node(rng, kind, lens):
    ln = rng.pick(lens)
    key = rng.rbytes(16)
    ctr = rng.pick(CTR_POOL + [rng.getrandbits(128) >> rng.pick([0, 8, 64])])
    if ctr + (ln + 40) // 16 + 2 >= 1 << 128:
        ctr = (1 << 128) - 40
    r = rng.random()
    if r < 0.45:
        base = ['bio', rng.rbytes(ln)]
    elif r < 0.55:
        # a base that REJECTS writes (a merged split file is read-only): a write through the wrapper raises what the base raises,
        # and everything after that write must go on as if it had not happened
        base = ['merge', [[['bio', rng.rbytes(ln + rng.pick([0, 0, 5]))], ln]]]
    else:
        off = rng.randint(1, 37)
        base = ['sub', off, ln, ['bio', rng.rbytes(off + ln + rng.pick([0, 0, 3, 20]))]]
    return [kind, key, ctr, base], ln


class VirtualFile:
    """a read-only file of astronomic size whose content is a function of the offset (nothing is stored)"""

    def __init__(self, size, seed):
        self.size, self.seed, self.pos, self.closed = size, seed, 0, False
        self.written = {}           # sparse overlay: position -> byte

    def content(self, pos, n):
        import hashlib
        n = max(0, min(n, self.size - pos))
        out = bytearray()
        blk = pos // 32
        while len(out) < n + pos % 32:
            out += hashlib.sha256(self.seed + blk.to_bytes(16, 'little')).digest()
            blk += 1
        out = bytearray(out[pos % 32:pos % 32 + n])
        if self.written:
            for i in range(n):
                b = self.written.get(pos + i)
                if b is not None:
                    out[i] = b
        return bytes(out)

    def write(self, data):
        data = bytes(data)[:max(0, self.size - self.pos)]
        for i, b in enumerate(data):
            self.written[self.pos + i] = b
        self.pos += len(data)
        return len(data)

    def seek(self, pos, whence=0):
        self.pos = max(0, pos if whence == 0 else (self.pos + pos if whence == 1 else self.size + pos))
        return self.pos

    def tell(self):
        return self.pos

    def read(self, n=-1):
        if n is None or n < 0:
            n = max(0, self.size - self.pos)
        d = self.content(self.pos, n)
        self.pos += len(d)
        return d

    def readable(self):
        return True

    def seekable(self):
        return True

    def writable(self):
        return True

    def close(self):
        self.closed = True


HUGE = [1 << 32, (1 << 32) * 16, (1 << 36) + 0x123, (1 << 40) - 5, 1 << 44, (1 << 48) + 7, (1 << 63) - 16, (1 << 64) + 3, (1 << 68)]


class C01(StackCheck):
    prop = 'C01'
    rule = ('key, counter (incl. carries into the high half and values just below 2^128), flavour 3DS/DSi (chosen by '
            'create_ctr_io from the keyslot number), base BytesIO or SubsectionIO at non-zero offset, stream length '
            '0-100, op lists of 1-12 seek/read/tell with every residue mod 16, sizes -3..len+5, targets inside/at/'
            'after the end, plus reads at positions beyond 2^32 bytes / 2^32 blocks / 2^64 on a virtual file (monitor only); real side = CryptoEngine.create_ctr_io, model side = CtrIO/TwlIO over the same stack; '
            'monitor = ECB keystream only; non-trivial = some op returned data or raised')
    trusted_base = [
        'Lean 4.33 kernel; axioms propext, Classical.choice, Quot.sound only',
        'AES-128 is a parameter E in the theorems; the driver instance (Prim/Aes.lean) is validated against PyCryptodome',
        'PyCryptodome CTR cipher-object protocol modelled by CtrObj (keystream continuity, direction lock)',
        'io.BytesIO modelled by PyFile; Driver knot nodeOps; harness generator and ECB monitor',
    ]
    assumptions = ['counter + blocks < 2^128 (as in the property)', 'one thread', 'not closed']

    def budget(self, tier):
        return 500 if tier == 'quick' else 4000

    def gen(self, rng, tier, i):
        if rng.chance(0.12):
            # positions far beyond 2^32 bytes / 2^32 blocks, on a file that exists only as a function of the offset
            ops = []
            for _ in range(rng.randint(1, 4)):
                base = rng.pick(HUGE)
                ops.append(['s', base + rng.pick([0, 1, 5, 15, 16, 17, 0xFF0, -1, -16, -33]), 0])
                for _ in range(rng.randint(1, 2)):
                    ops.append(['r', rng.pick([1, 5, 16, 17, 32, 40])])
                if rng.chance(0.3):
                    ops.append(['t'])
            return {'huge': True, 'kind': rng.pick(['ctr', 'ctr', 'twl']), 'key': rng.rbytes(16),
                    'ctr': rng.pick(CTR_POOL[:3] + [rng.getrandbits(100)]), 'seed': rng.rbytes(8), 'ops': ops}
        node, ln = gen_crypto_node(rng, rng.pick(['ctr', 'twl']), [0, 1, 15, 16, 17, 31, 32, 40, 64, 100])
        ops = gen_ops(rng, ln, writes=False, queries=False)
        if rng.chance(0.35):
            ops = add_owner_moves(rng, ops, ln)
        return {'node': node, 'ops': ops}

    def run_case(self, case, drv):
        if not case.get('huge'):
            return super().run_case(case, drv)
        import envsetup
        from filestack import ctr_xor
        from framework import CaseResult
        e = envsetup.install()
        eng = e.CryptoEngine()
        twl = case['kind'] == 'twl'
        slot = ctr_slot(case['kind'], case['key'])
        eng.set_normal_key(slot, case['key'])
        vf = VirtualFile((1 << 70) + 4096, case['seed'])
        f = eng.create_ctr_io(slot, vf, case['ctr'])
        mon, outs = [], []
        pos = 0
        for op in case['ops']:
            try:
                if op[0] == 's':
                    pos = f.seek(op[1], op[2])
                    outs.append(f'n:{pos}')
                    if pos != op[1]:
                        mon.append(f'seek({op[1]}) returned {pos}')
                elif op[0] == 't':
                    t = f.tell()
                    outs.append(f'n:{t}')
                    if t != pos:
                        mon.append(f'tell() = {t}, expected {pos}')
                else:
                    d = f.read(op[1])
                    outs.append('b:' + d.hex())
                    ct = vf.content(pos - pos % 16, op[1] + pos % 16)
                    exp = ctr_xor(case['key'], (case['ctr'] + (pos >> 4)) % (1 << 128), ct, twl)[pos % 16:]
                    if exp is not None and d != exp:
                        mon.append(f'read({op[1]}) at {pos:#x}: bytes differ from the whole-stream decryption at that position')
                    pos += len(d)
            except Exception as ex:     # noqa
                outs.append('e:' + type(ex).__name__)
                mon.append(f'{op} at {pos:#x} raised {type(ex).__name__}')
                break
        real = ' '.join(outs)
        return CaseResult(real, real, mon, 'huge:' + str(case['ops'])[:60], 'ctr.huge' if mon else None, {'stack:huge-' + case['kind']: 1})

    def shrink(self, case):
        if not case.get('huge'):
            yield from super().shrink(case)
            return
        ops = case['ops']
        for i in range(len(ops)):
            if len(ops) > 1:
                c = dict(case)
                c['ops'] = ops[:i] + ops[i + 1:]
                yield c

    def exhaustive(self, tier):
        if tier != 'thorough':
            return
        key, ctr = bytes(range(16)), (1 << 64) - 2
        data = bytes((7 * i + 3) & 0xFF for i in range(60))
        for kind in ('ctr', 'twl'):
            for base in (['bio', data[:40]], ['sub', 5, 40, ['bio', data]]):
                for start in range(0, 17):
                    for n in list(range(0, 36)) + [-1]:
                        for pre in ([], [['r', 16]], [['r', 3]], [['s', 0, 1]]):
                            yield {'node': [kind, key, ctr, base], 'ops': pre + [['s', start, 1], ['r', n], ['t'], ['r', 5]]}


CHECK = C01()
