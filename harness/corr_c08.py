"""C08 — key scrambler and keyslot state stay coherent under any key-operation sequence."""
import envsetup
from common import exc_name, sexp
from framework import CaseResult, Check

M = (1 << 128) - 1
C3DS = 0x1FF9E9AAC5FE0408024591DC5D52768A
CTWL = 0xFFFEFB4E295902582A680F5F1A4F3E79
COMMON_Y = (0xD07B337F9CA4385932A2E25723232EB9, 0x0C767230F0998F1C46828202FAACBE4C, 0xC475CB3AB8C788BB575E12A10907B8A4,
            0xE486EEE3D0C09C902F6686D4C06F649F, 0xED31BA9C04B067506C4497A35B7804FC, 0x5E66998AB4E8931606850FD7A16DD755)


def rotl(v, r):
    v &= M
    return ((v << r) | (v >> (128 - r))) & M


def scr(slot, x, y):
    """the documented hardware scramblers, written independently of pyctr"""
    if slot < 4:
        return rotl(((x ^ y) + CTWL) & M, 42).to_bytes(16, 'big')
    return rotl(((rotl(x, 2) ^ y) + C3DS) & M, 87).to_bytes(16, 'big')


SLOTS = [0, 1, 3, 4, 5, 0x18, 0x2C, 0x30, 0x34, 0x3A, 0x3D, 0x40, 0x44]
SPECIAL = [0, M, 1, 2, 1 << 40, 1 << 41, 1 << 42, 1 << 85, 1 << 86, 1 << 87, 1 << 125, 1 << 126, 1 << 127,
           M ^ C3DS, (M - C3DS) + 5, M - CTWL + 1, (1 << 126) - 1]


def gen_val(rng):
    r = rng.random()
    if r < 0.35:
        return rng.pick(SPECIAL)
    if r < 0.5:
        return rng.pick(SPECIAL) ^ (1 << rng.randrange(128))
    return rng.getrandbits(128)


class C08(Check):
    prop = 'C08'
    rule = ('engines built (with/without key area) x (retail/dev); op sequences of length 1-25 over 10 slots '
            '(0,1,3,4,5,0x18,0x2C,0x3D,0x40,0x44): set X/Y as int or bytes with/without normal-key update, set normal, '
            'refresh, clone (then mutate both sides), ticket / encrypted-titlekey load; values random and structured '
            '(0, 2^128-1, single bits at rotation boundaries, carries out of bit 127); after every mutation the touched '
            'slot is observed in every live engine through key_normal and through the ECB/CTR/CBC cipher factories; '
            'non-trivial = at least one slot held a scrambler-derived key or an error was raised')
    trusted_base = [
        'Lean 4.33 kernel; axioms propext, Classical.choice, Quot.sound only',
        'Python int arithmetic modelled by Nat; dicts modelled as total functions Nat -> Option',
        'AES decryption for ticket loading is a parameter in the theorems (Lean AES validated against PyCryptodome in the driver)',
        'constants (scrambler constants, common key Ys, fixed keys, key-area reading plan) are transcribed into the '
        'model and checked only by the correspondence',
        'harness generator and independent scrambler/ghost monitor',
    ]
    assumptions = ['bootROM key area is an input (0x400 arbitrary bytes); the boot9 SHA-256 pin is out of scope']

    def budget(self, tier):
        return 250 if tier == 'quick' else 2500

    def gen(self, rng, tier, i):
        ops = [['new', int(rng.chance(0.3)), rng.rbytes(0x400) if rng.chance(0.6) else None]]
        n_eng = 1
        for _ in range(rng.randint(1, 25)):
            e = rng.randrange(n_eng)
            slot = rng.pick(SLOTS)
            r = rng.random()
            if r < 0.30:
                ops.append([rng.pick(['sx', 'sy']), e, slot, gen_val(rng), int(rng.chance(0.7))])
            elif r < 0.50:
                v = gen_val(rng)
                ops.append([rng.pick(['sxb', 'syb']), e, slot, v.to_bytes(16, 'big'), int(rng.chance(0.7))])
            elif r < 0.62:
                ops.append(['sn', e, slot, rng.rbytes(16)])
            elif r < 0.72:
                ops.append(['ref', e])
            elif r < 0.80 and n_eng < 4:
                ops.append(['clone', e])
                n_eng += 1
            elif r < 0.86:
                tik = bytearray(rng.rbytes(0x2AC + rng.pick([0, 0, 0xA4])))
                tik[0x1F1] = rng.pick([0, 1, 2, 3, 4, 5, 5, 6])
                if rng.chance(0.1):
                    tik = tik[:rng.pick([0, 0x100, 0x2AB])]
                ops.append(['tik', e, bytes(tik)])
            elif r < 0.90:
                ops.append(['etk', e, rng.rbytes(16), rng.pick([0, 1, 2, 3, 4, 5]), rng.rbytes(8)])
            elif r < 0.94:
                # the compound key-setting operations of the engine belong to "any sequence of key-setting operations" as well:
                # setup_sd_key puts the movable.sed KeyY into three slots - and must leave every other slot as it is
                ops.append(['sdk', e, rng.rbytes(rng.pick([0x10, 0x10, 0x120, 0x140, 0x20]))])
            else:
                ops.append(['get', e, slot])
        return {'ops': ops}

    def run_case(self, case, drv):
        from Cryptodome.Cipher import AES
        ops = case['ops']
        e = envsetup.install()
        engines, ghosts = [], []
        toks, wire = [], []
        mon, key = [], None
        info = {}
        nontrivial = False

        def observe(i, slot):
            nonlocal nontrivial
            eng = engines[i]
            try:
                c = eng.create_ecb_cipher(slot)
                k = eng.key_normal[slot]
                z = b'\0' * 16
                ref = AES.new(k, AES.MODE_ECB)
                if c.encrypt(z) != ref.encrypt(z):
                    mon.append(f'ecb factory for slot {slot:#x} does not use key_normal')
                ct = eng.create_ctr_cipher(slot, 7).encrypt(z)
                ks = ref.encrypt((7).to_bytes(16, 'big'))
                if ct != (ks[::-1] if slot < 4 else ks):
                    mon.append(f'ctr factory for slot {slot:#x} does not use key_normal')
                if eng.create_cbc_cipher(slot, z).encrypt(z) != ref.encrypt(z):
                    mon.append(f'cbc factory for slot {slot:#x} does not use key_normal')
                tok = k.hex()
            except Exception as ex:  # noqa
                tok = 'e:' + exc_name(ex)
                if slot in eng.key_normal:
                    mon.append(f'slot {slot:#x} has a normal key but the factory raised {tok}')
            g = ghosts[i].get(slot)
            if g is not None:
                if g[0] == 'formula':
                    x, y = eng.key_x.get(slot), eng.key_y.get(slot)
                    exp = scr(slot, x, y).hex() if x is not None and y is not None else None
                    nontrivial = True
                else:
                    exp = g[1].hex()
                if exp is not None and tok != exp:
                    mon.append(f'engine {i} slot {slot:#x}: normal key {tok} expected {exp} ({g[0]})')
            toks.append(tok)
            wire.append(('get', i, slot))

        for op in ops:
            k = op[0]
            info['op:' + k] = info.get('op:' + k, 0) + 1
            touched = None
            try:
                if k == 'new':
                    blob = op[2]
                    if blob is not None:
                        e._b9_keyblob['dev' if op[1] else 'retail'] = blob
                    engines.append(e.CryptoEngine(dev=bool(op[1]), setup_b9_keys=blob is not None))
                    ghosts.append({})
                    wire.append(('new', op[1], blob if blob is not None else 'none'))
                    toks.append('ok')
                    continue
                eng, gh = engines[op[1]], ghosts[op[1]]
                if k in ('sx', 'sy', 'sxb', 'syb'):
                    slot, val, upd = op[2], op[3], bool(op[4])
                    eng.set_keyslot(k[1], slot, val, update_normal_key=upd)
                    ival = val if isinstance(val, int) else int.from_bytes(val, 'big' if slot > 3 else 'little')
                    gx = gh.setdefault('_x', {})
                    gy = gh.setdefault('_y', {})
                    (gx if k[1] == 'x' else gy)[slot] = ival
                    gh[slot] = ('formula',) if (upd and slot in gx and slot in gy) else None
                    touched = slot
                elif k == 'sn':
                    eng.set_normal_key(op[2], op[3])
                    gh[op[2]] = ('direct', op[3])
                    touched = op[2]
                elif k == 'ref':
                    eng.update_normal_keys()
                    for s in set(eng.key_x) & set(eng.key_y):
                        gh[s] = ('formula',)
                elif k == 'clone':
                    engines.append(eng.clone())
                    ghosts.append({kk: (dict(v) if isinstance(v, dict) else v) for kk, v in gh.items()})
                elif k in ('tik', 'etk'):
                    if k == 'tik':
                        eng.load_from_ticket(op[2])
                        tk, idx, tid = op[2][0x1BF:0x1CF], op[2][0x1F1], op[2][0x1DC:0x1E4]
                    else:
                        eng.load_encrypted_titlekey(op[2], op[3], op[4])
                        tk, idx, tid = op[2], op[3], op[4]
                    ck = eng.key_normal[0x3D]
                    if not (eng.dev and idx == 0):
                        x = eng.key_x.get(0x3D)
                        if x is not None and ck != scr(0x3D, x, COMMON_Y[idx]):
                            mon.append(f'common key (index {idx}) is not the scrambler output')
                        gh.setdefault('_y', {})[0x3D] = COMMON_Y[idx]
                    gh[0x3D] = None
                    expect = AES.new(ck, AES.MODE_CBC, tid + b'\0' * 8).decrypt(tk)
                    gh[0x40] = ('direct', expect)
                    touched = 0x40
                elif k == 'sdk':
                    eng.setup_sd_key(op[2])
                    ky = op[2] if len(op[2]) == 0x10 else op[2][0x110:0x120]
                    gy = gh.setdefault('_y', {})
                    for s_ in (0x34, 0x30, 0x3A):
                        gy[s_] = int.from_bytes(ky, 'big')
                        gh[s_] = ('formula',) if s_ in eng.key_x else None
                elif k == 'get':
                    observe(op[1], op[2])
                    continue
                toks.append('ok')
            except Exception as ex:  # noqa
                toks.append('e:' + exc_name(ex))
                nontrivial = True
                if k in ('tik', 'etk'):
                    ghosts[op[1]][0x3D] = None
                elif k == 'sdk' and len(op[2]) not in (0x10, 0x120, 0x140):
                    pass        # BadMovableSedError for an impossible length
                else:
                    mon.append(f'{k} raised {toks[-1]}')
            wire.append(tuple('none' if x is None else x for x in op))
            if touched is not None:
                for j in range(len(engines)):
                    observe(j, touched)
            elif k in ('ref', 'sdk'):
                for s in SLOTS:
                    observe(op[1], s)
            elif k == 'clone':
                for s in SLOTS:
                    observe(len(engines) - 1, s)
            if mon:
                key = f'engine.{k}'
                break
        real = ' '.join(toks)
        model = drv.ask(('engine',) + tuple(wire))
        return CaseResult(real, model, mon, sig=real if nontrivial else '', key=key, info=info)

    def shrink(self, case):
        ops = case['ops']
        for i in range(1, len(ops)):
            if ops[i][0] == 'clone':
                continue
            yield {'ops': ops[:i] + ops[i + 1:]}

    def neighbours(self, case, rng):
        for i in range(300):
            yield self.gen(rng, 'quick', i)


CHECK = C08()
