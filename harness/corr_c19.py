"""C19 — no input makes a reader hang or consume unbounded resources."""
import hashlib
import io
import resource

import closefix as cf
import envsetup
from common import Rng, exc_name, sexp
from framework import CaseResult, Check

_COUNTER = None
_BASES = {}
SPECIAL = [0, 1, 2, 0x18, 0x20, 0x7F, 0xFF, 0x100, 0x200, 0x7FFF, 0x8000, 0xFFFF, 0x10000, 0x7FFFFFFF, 0x80000000, 0xFFFFFFFE, 0xFFFFFFFF]


def counter():
    global _COUNTER
    if _COUNTER is None:
        import costmon
        _COUNTER = costmon.Counter()
    return _COUNTER


def budget_for(n):
    """line events allowed for an input of n bytes (the valid fixtures need ~1-15 events per byte)"""
    return 400 * n + 600_000


# ---------------------------------------------------------------- construction + full traversal per reader
def read_all(f):
    return len(f.read())


STAGE = {}


def trav_romfs(b):
    from pyctr.type.romfs import RomFSReader
    STAGE['romfs'] = 'ctor'
    r = RomFSReader(io.BytesIO(b))
    STAGE['romfs'] = 'walk'
    n = 0
    for p in r.walk.files('/'):
        with r.openbin(p) as f:
            n += read_all(f)
    return n


def trav_exefs(b):
    from pyctr.type.exefs import ExeFSReader
    r = ExeFSReader(io.BytesIO(b))
    n = 0
    for e in list(r.entries):
        n += read_all(r.open(e))
    if '.code' in r.entries:
        r.decompress_code()
        n += read_all(r.open('.code-decompressed'))
    return n


def trav_ncch_reader(r):
    from pyctr.type.ncch import NCCHSection
    n = 0
    for s in list(r.sections):
        n += read_all(r.open_raw_section(s))
    n += read_all(r.open_raw_section(NCCHSection.FullDecrypted))
    if r.exefs:
        for e in list(r.exefs.entries):
            n += read_all(r.exefs.open(e))
    if r.romfs:
        for p in r.romfs.walk.files('/'):
            n += read_all(r.romfs.openbin(p))
    return n


def trav_ncch(b):
    from pyctr.type.ncch import NCCHReader, NCCHSection
    r = NCCHReader(io.BytesIO(b))
    n = 0
    for s in list(r.sections):
        n += read_all(r.open_raw_section(s))
    n += read_all(r.open_raw_section(NCCHSection.FullDecrypted))
    if r.exefs:
        for e in list(r.exefs.entries):
            n += read_all(r.exefs.open(e))
    if r.romfs:
        for p in r.romfs.walk.files('/'):
            n += read_all(r.romfs.openbin(p))
    return n


def trav_cia(b):
    from pyctr.type.cia import CIAReader
    r = CIAReader(io.BytesIO(b))
    n = 0
    for s in list(r.sections):
        n += read_all(r.open_raw_section(s))
    for c in list(r.contents.values()):
        n += trav_ncch_reader(c)
    return n


def trav_cci(b):
    from pyctr.type.cci import CCIReader
    r = CCIReader(io.BytesIO(b))
    n = 0
    for s in list(r.sections):
        n += read_all(r.open_raw_section(s))
    for c in list(r.contents.values()):
        n += trav_ncch_reader(c)
    return n


def trav_tmd(b):
    from pyctr.type.tmd import TitleMetadataReader
    t = TitleMetadataReader.load(io.BytesIO(b))
    return len(t.chunk_records) + len(bytes(t))


def trav_smdh(b):
    from pyctr.type.smdh import SMDH
    SMDH.load(io.BytesIO(b))
    return 1


def trav_nand(b):
    from pyctr.type.nand import NAND
    fx = cf.nand_bytes()
    r = NAND(io.BytesIO(b), otp=fx[1], cid=fx[2], auto_raise_exceptions=False)
    n = 0
    for s in list(r.header.partition_table):
        try:
            n += len(r.open_raw_section(s).read(0x4000))
        except (KeyError, NotImplementedError):
            pass
    n += len(bytes(r.header))
    return n


def trav_save(cls):
    def go(b):
        from pyctr.type.save.partdesc.ivfc import IVFCLevel4Reader
        r = cls(io.BytesIO(b))
        n = 0
        for p in r.partitions.values():
            n += read_all(IVFCLevel4Reader(p.ivfc_hash_tree))
            p.dpfs_lv3_file.seek(0)
            n += read_all(p.dpfs_lv3_file)
        return n
    return go


def trav_seeddb(b):
    import pyctr.crypto.seeddb as sd
    sd._seeds.clear()
    try:
        sd.load_seeddb(io.BytesIO(b))
        return len(sd._seeds)
    finally:
        sd._seeds.clear()


def trav_cfg(b):
    from pyctr.type.config.save import ConfigSaveReader
    c = ConfigSaveReader.load(io.BytesIO(b))
    return len(c.to_bytes())


def trav_lzss(b):
    from pyctr.type.exefs import decompress_code
    return len(decompress_code(b))


def fix_save_hash(kind):
    """after a descriptor field was retargeted, make the header hash match again (the hash is not a secret)"""
    def go(b):
        b = bytearray(b)
        hdr = b[0x100:0x200]
        if len(hdr) < 0x100:
            return bytes(b)
        if kind == 'diff':
            sec, prim, size = (int.from_bytes(hdr[o:o + 8], 'little') for o in (0x8, 0x10, 0x18))
            off = prim if int.from_bytes(hdr[0x30:0x34], 'little') == 0 else sec
            if off + size <= len(b) and size < 0x10000:
                b[0x100 + 0x34:0x100 + 0x54] = hashlib.sha256(b[off:off + size]).digest()
        else:
            sec, prim, size = (int.from_bytes(hdr[o:o + 8], 'little') for o in (0x10, 0x18, 0x20))
            off = prim if hdr[0x68] == 0 else sec
            if off + size <= len(b) and size < 0x10000:
                b[0x100 + 0x6C:0x100 + 0x8C] = hashlib.sha256(b[off:off + size]).digest()
        return bytes(b)
    return go


def bases():
    if not _BASES:
        envsetup.install()
        import ciabuild
        import corr_c20
        from pyctr.type.save.diff import DIFF
        from pyctr.type.save.disa import DISA
        rng = Rng('c19-bases')
        tmd = ciabuild.build_tmd(bytes.fromhex('0004000000123400'),
                                 [(bytes.fromhex('0000000a'), 0, 0, 0x400, hashlib.sha256(b'x').digest()),
                                  (bytes.fromhex('0000000b'), 1, 1, 0x200, hashlib.sha256(b'y').digest())], rng=rng)
        small = [[rng.getrandbits(16) for _ in range(24)] for _ in range(24)]
        large = [[rng.getrandbits(16) for _ in range(48)] for _ in range(48)]
        smdh = corr_c20.build_smdh([('a', 'b', 'c')] * 12, [1] * 11, [1] * 7, False, small, large, rng)[0]
        c20 = corr_c20.C20()
        kb = corr_c20.known_blocks()
        cfg = c20.cfg_build([(i, kb[i]['flags'], rng.rbytes(kb[i]['size'])) for i in sorted(kb)[:20]])
        seed = (3).to_bytes(4, 'little') + bytes(12) + b''.join(rng.rbytes(8) + rng.rbytes(16) + bytes(8) for _ in range(3))
        lz = corr_c20.blz_compress(b'abcabcabcabc' * 20 + rng.rbytes(40) + bytes(100)) or cf.CODE
        _BASES.update({
            'romfs': (cf.romfs_bytes(), trav_romfs, None, None),
            'romfs-ivfc': (__import__('romfsbuild').wrap_ivfc(cf.romfs_bytes(), 0x20, 12)[0], trav_romfs, None, None),
            'romfs-deep': (romfs_deep_bytes(18), trav_romfs, None, None),
            'exefs': (cf.exefs_bytes(), trav_exefs, None, None),
            'ncch': (cf.ncch_bytes(False), trav_ncch, 0x400, None),
            'ncch-enc': (cf.ncch_bytes(True), trav_ncch, 0x400, None),
            'cia': (cf.cia_bytes(True), trav_cia, 0x2040, None),
            'cci': (cf.cci_bytes(), trav_cci, 0x400, None),
            'cci-enc': (cf.cci_bytes(True), trav_cci, 0x400, None),
            'tmd': (tmd, trav_tmd, None, None),
            'smdh': (smdh, trav_smdh, 0x40, None),
            'nand': (cf.nand_bytes()[0], trav_nand, 0x400, None),
            'diff': (cf.diff_bytes(), trav_save(DIFF), 0x600, fix_save_hash('diff')),
            'disa': (cf.disa_bytes(), trav_save(DISA), 0x800, fix_save_hash('disa')),
            'seeddb': (seed, trav_seeddb, None, None),
            'cfg': (cfg, trav_cfg, 0x200, None),
            'lzss': (lz, trav_lzss, None, None),
        })
    return _BASES


def romfs_layout(b):
    """positions (absolute, in the valid image b) of the lv3 header words and of every link field of the two metadata tables"""
    lv3 = 0
    if b[:4] == b'IVFC':
        mh = int.from_bytes(b[8:12], 'little')
        bs = 1 << int.from_bytes(b[0x4C:0x50], 'little')
        lv3 = -(-(0x60 + mh) // bs) * bs
    w = [int.from_bytes(b[lv3 + 4 * i:lv3 + 4 * i + 4], 'little') for i in range(10)]
    dm_off, dm_size, fm_off, fm_size = w[3], w[4], w[7], w[8]
    dirs, files, links = [], [], []
    o = 0
    while o + 0x18 <= dm_size:
        dirs.append(o)
        p = lv3 + dm_off + o
        for name, d in (('d.parent', 0), ('d.sibling', 4), ('d.child', 8), ('d.file', 0xC), ('d.hash', 0x10)):
            links.append((name, p + d))
        o += 0x18 + (int.from_bytes(b[p + 0x14:p + 0x18], 'little') + 3) // 4 * 4
    o = 0
    while o + 0x20 <= fm_size:
        files.append(o)
        p = lv3 + fm_off + o
        for name, d in (('f.parent', 0), ('f.sibling', 4), ('f.hash', 0x18)):
            links.append((name, p + d))
        o += 0x20 + (int.from_bytes(b[p + 0x1C:p + 0x20], 'little') + 3) // 4 * 4
    return {'lv3': lv3, 'words': w, 'dirs': dirs, 'files': files, 'links': links}


def romfs_deep_bytes(levels):
    """a chain of `levels` levels, two sibling directories per level (the first one carries the next level)"""
    import romfsbuild
    node = []
    for i in reversed(range(levels)):
        node = [['d', 'a%d' % i, node, []], ['d', 'b%d' % i, [], []]]
    return romfsbuild.build_lv3(['d', '', node, [['f.bin', b'x']]])[0]     # no file below the root: only the directory counter guards the chain


def romfs_shared_children(b, lay):
    """multi-field retargets without any cycle: every directory's next sibling gets the same first child (a DAG whose
    number of PATHS doubles per level while the number of ENTRIES stays put) - all levels at once, and from level k on"""
    base = lay['lv3'] + lay['words'][3]
    pairs = []
    for o in lay['dirs']:
        sib = int.from_bytes(b[base + o + 4:base + o + 8], 'little')
        child = int.from_bytes(b[base + o + 8:base + o + 12], 'little')
        if sib != 0xFFFFFFFF and child != 0xFFFFFFFF and sib in lay['dirs']:
            pairs.append(['set', base + sib + 8, 4, child])
    return [pairs[k:] for k in range(0, max(1, len(pairs) - 3), 2)] + [[m] for m in pairs[:4]]


def romfs_cycles(lay):
    """single link retargets that close a loop (or point an entry at itself)"""
    out = []
    for name, pos in lay['links']:
        if name in ('d.sibling', 'd.child'):
            out += [[['set', pos, 4, t]] for t in lay['dirs']]
        elif name in ('f.sibling',):
            out += [[['set', pos, 4, t]] for t in lay['files']]
        elif name == 'd.file':
            out += [[['set', pos, 4, t]] for t in lay['files'][:2]]
    return out


def romfs_header_profiles(lay):
    """header rewrites: every single word to an extreme value, and *consistent* inflations (one region's size made huge and every
    later offset pushed behind it, so that the ordering checks of the header still pass)"""
    lv3, w = lay['lv3'], lay['words']
    out = [[]]
    for i in range(1, 10):
        for v in (0, 0x7FFFFFFF, 0xFFFFFFE0, 0xFFFFFFFF):
            out.append([['set', lv3 + 4 * i, 4, v]])
    # regions: (offset word, size word): dirhash 1,2  dirmeta 3,4  filehash 5,6  filemeta 7,8  filedata 9
    for k in (2, 4, 6, 8):
        for top in (0xFFFFFFFF, 0x7FFFFFFF, 0x01000000):
            m = [['set', lv3 + 4 * k, 4, top - w[k - 1] - 0x100 * (10 - k)]]
            nxt = top - 0x100 * (10 - k)
            for j in range(k + 1, 10, 2):
                m.append(['set', lv3 + 4 * j, 4, nxt])          # later offsets
                if j + 1 < 10:
                    m.append(['set', lv3 + 4 * (j + 1), 4, 0x20])  # their sizes small
                    nxt += 0x40
            out.append(m)
    return out


def mutate(base, muts):
    b = bytearray(base)
    for m in muts:
        if m[0] == 'set':
            _, pos, width, val = m
            if pos + width <= len(b):
                b[pos:pos + width] = (val & ((1 << (8 * width)) - 1)).to_bytes(width, 'little')
        elif m[0] == 'trunc':
            b = b[:m[1]]
        elif m[0] == 'rand':
            r = Rng(m[1])
            b = bytearray(r.rbytes(m[2]))
    return bytes(b)


class C19(Check):
    prop = 'C19'
    hang_is_violation = True
    case_timeout = 25
    rule = ('for every reader (RomFS bare and IVFC-wrapped, ExeFS incl. code decompression, NCCH plain / encrypted incl. the '
            'FullDecrypted view and nested readers, CIA, CCI, TMD, SMDH, NAND, DIFF, DISA, seed DB, config save, LZSS) a valid file '
            'from the builders of the other checks, with 1-3 fields (1/2/4/8 bytes, any alignment in the header area, 4-byte '
            'aligned elsewhere) retargeted to {0, 1, small sizes, 0x7FFF.., 0xFFFF.., file length +-1, random}, truncations, and raw '
            'random byte strings; descriptor hashes of DISA/DIFF are re-computed after the retargeting.  Construction + full '
            'traversal run under a line-event budget (400 events per input byte + 600 000), a 25 s alarm and an address-space '
            'limit; exhaustive single-field retargeting of every 4-byte word of the small fixtures in the thorough tier; '
            'non-trivial = always')
    trusted_base = [
        'Lean 4.33 kernel; axioms propext, Classical.choice, Quot.sound only',
        'proved cost facts cover the loops whose trip count is driven by on-disk values in the RomFS walk, the LZSS decoder, the '
        'seed database loader (and the block loops of the save levels); for the other readers the bound is the MEASURED '
        'line-event budget, not a theorem',
        'wall-clock time and memory are runtime facts: measured under a budget (sys.monitoring line events of pyctr code, '
        'RLIMIT_AS, alarm), not proved',
        'a constant bound (e.g. 2^32 iterations from a 32-bit field) does not count as "depending only on the input size": '
        'the budget is linear in the input length',
    ]
    assumptions = ['the traversal reads handles with read() (read-all) and walks RomFS trees with fs.walk']

    def setup_worker(self):
        import sys
        resource.setrlimit(resource.RLIMIT_AS, (4 << 30, 4 << 30))
        # a reader whose constructor raised is finalised half-built; CPython prints "Exception ignored in __del__" for those
        sys.unraisablehook = lambda *a: None

    def budget(self, tier):
        return 2000 if tier == "quick" else 12000

    def gen(self, rng, tier, i):
        bs = bases()
        kind = rng.pick(sorted(bs))
        base, _, hdr, _ = bs[kind]
        n = len(base)
        mode = rng.pick(['field', 'field', 'field', 'multi', 'trunc', 'rand'])
        muts = []
        if mode in ('field', 'multi'):
            for _ in range(1 if mode == 'field' else rng.randint(2, 3)):
                width = rng.pick([4, 4, 4, 8, 2, 1])
                area = min(n, hdr or n)
                pos = rng.randrange(max(1, area - width + 1)) if rng.chance(0.6) else (rng.randrange(max(1, n - width + 1)) // 4 * 4)
                val = rng.pick(SPECIAL + [n, n - 1, n + 1, n // 0x200, rng.getrandbits(32), rng.getrandbits(8 * width)])
                muts.append(['set', pos, width, val])
        elif mode == 'trunc':
            muts.append(['trunc', rng.pick([0, 1, 4, 0x10, 0x100, 0x1FF, 0x200, n // 2, max(n - 1, 0)])])
        else:
            muts.append(['rand', rng.getrandbits(32), rng.pick([0, 1, 16, 0x200, 0x400, 0x1000])])
            if rng.chance(0.7) and n >= 8:
                # keep the magic so that parsing gets past the first check
                muts.append(['keep-head'])
        return {'kind': kind, 'muts': muts}

    def exhaustive(self, tier):
        bs = bases()
        # RomFS: every loop-closing link retarget x every header profile (single extreme words and consistent inflations)
        for kind in ('romfs', 'romfs-ivfc'):
            lay = romfs_layout(bs[kind][0])
            cyc = romfs_cycles(lay)
            prof = romfs_header_profiles(lay)
            if tier != 'thorough':
                cyc = cyc[::3]
            for c in cyc:
                for p in prof:
                    yield {'kind': kind, 'muts': c + p}
        # RomFS: acyclic link sharing (siblings with one common child list, on every level of a deep chain)
        for kind in ('romfs-deep', 'romfs'):
            for muts in romfs_shared_children(bs[kind][0], romfs_layout(bs[kind][0])):
                yield {'kind': kind, 'muts': muts}
        # NCCH: the content size together with every section offset / size field (a size or end that outruns the file must not buy
        # loop iterations), alone in a file and nested in a cartridge image whose partition size is inflated too
        big = (0xFFFFFFFF, 0x7FFFFFF0, 0x00800000)
        for kind in ('ncch', 'ncch-enc'):
            for cs in big:
                for fld in (0x180, 0x190, 0x194, 0x198, 0x19C, 0x1A0, 0x1A4, 0x1B0, 0x1B4):
                    for v in (cs, cs // 2, 0x00800000):
                        yield {'kind': kind, 'muts': [['set', 0x104, 4, cs], ['set', fld, 4, v]]}
        ccib = bs['cci'][0]
        p0 = int.from_bytes(ccib[0x120:0x124], 'little') * 0x200
        for psz in big:
            for cs in big:
                for ck in ('cci-enc',):
                    yield {'kind': ck, 'muts': [['set', 0x124, 4, psz], ['set', p0 + 0x104, 4, cs]]}
                    yield {'kind': ck, 'muts': [['set', 0x124, 4, psz], ['set', 0x104, 4, psz], ['set', p0 + 0x104, 4, cs]]}
                yield {'kind': 'cci', 'muts': [['set', 0x124, 4, psz], ['set', p0 + 0x104, 4, cs]]}
                yield {'kind': 'cci', 'muts': [['set', 0x124, 4, psz], ['set', 0x104, 4, psz], ['set', p0 + 0x104, 4, cs]]}
                for fld in (0x1A4, 0x1B4, 0x194):
                    yield {'kind': 'cci', 'muts': [['set', 0x124, 4, psz], ['set', p0 + 0x104, 4, cs], ['set', p0 + fld, 4, cs // 2]]}
        # single-word retargeting of every 4-byte word of the structured header areas (save descriptors, NCCH / NCSD / ExeFS
        # headers, the TMD) to the values that turn a size, count or exponent field into something enormous
        for kind in ('diff', 'disa'):
            base = bs[kind][0]
            spans = []
            j = base.find(b'DIFI')
            while j >= 0:
                spans.append((j, min(len(base), j + 0x130)))
                j = base.find(b'DIFI', j + 1)
            for lo, hi in spans:
                for pos in range(lo, hi - 3, 4):
                    for val in (0xFFFFFFFF, 0x7FFFFFFF, 0x40):
                        yield {'kind': kind, 'muts': [['set', pos, 4, val]]}
        for kind, lo, hi in (('ncch', 0x100, 0x200), ('cci', 0x100, 0x200), ('nand', 0x100, 0x200), ('exefs', 0, 0x200),
                             ('tmd', 0x140, 0x140 + 0xC4 + 0x40 * 0x24 + 0x60)):
            base = bs[kind][0]
            for pos in range(lo, min(hi, len(base)) - 3, 4):
                for val in (0xFFFFFFFF, 0x7FFFFFFF):
                    yield {'kind': kind, 'muts': [['set', pos, 4, val]]}
        # flag-like fields: every 16-bit half-word of the TMD header (title id incl. its category word, versions, flags) and of the
        # NCCH header set to each single-bit value - a decomposition loop that misses one bit never ends
        for kind, lo, hi, bits in (('tmd', 0x140, 0x140 + 0xC4, range(16)), ('ncch', 0x100, 0x200, (0, 7, 8, 15)),
                                   ('cci', 0x100, 0x200, (0, 7, 8, 15))):
            base = bs[kind][0]
            for pos in range(lo, min(hi, len(base)) - 1, 2):
                for k in bits:
                    yield {'kind': kind, 'muts': [['set', pos, 2, 1 << k]]}
        if tier != 'thorough':
            return
        for kind in ('romfs', 'exefs', 'seeddb', 'lzss', 'tmd', 'diff'):
            base = bs[kind][0]
            lim = min(len(base), bs[kind][2] or len(base), 0x600)
            for pos in range(0, lim - 3, 4):
                for val in (0, 1, 0x7FFFFFFF, 0xFFFFFFFF, len(base)):
                    yield {'kind': kind, 'muts': [['set', pos, 4, val]]}

    def run_case(self, case, drv):
        bs = bases()
        base, trav, _, fixer = bs[case['kind']]
        muts = [m for m in case['muts'] if m[0] != 'keep-head']
        data = mutate(base, muts)
        if any(m[0] == 'keep-head' for m in case['muts']) and len(data) >= 8:
            off = 0x100 if case['kind'] in ('ncch', 'ncch-enc', 'cci', 'cci-enc', 'nand', 'diff', 'disa') else 0
            data = data[:off] + base[off:off + 8] + data[off + 8:]
        if fixer:
            data = fixer(data)
        c = counter()
        rss0 = resource.getrusage(resource.RUSAGE_SELF).ru_maxrss
        out, events = c.run(lambda: trav(data), budget_for(len(data)))
        rss1 = resource.getrusage(resource.RUSAGE_SELF).ru_maxrss
        mon = []
        key = None
        if out[0] == 'budget':
            mon.append(f'{case["kind"]}: more than {budget_for(len(data))} line events for a {len(data)}-byte input '
                       f'(mutations {case["muts"]}) - the cost does not depend on the input size only')
            key = f'{case["kind"]}.budget'
        grew = (rss1 - rss0) * 1024
        if grew > 256 * 1024 * 1024 + 64 * len(data):
            mon.append(f'{case["kind"]}: resident memory grew by {grew >> 20} MiB for a {len(data)}-byte input (mutations {case["muts"]})')
            key = f'{case["kind"]}.memory'
        real = 'returned' if out[0] == 'ok' else ('raised' if out[0] == 'exc' else 'budget')
        # model side: the parsers whose cost is proved are run on the same bytes; the model is total, so it always answers
        model = real
        if case['kind'] in ('romfs', 'romfs-ivfc', 'romfs-deep') and out[0] != 'budget':
            # the constructor (header checks + metadata walk, whose cost is the proved part) against the model, error class included
            real = 'ok' if STAGE.get('romfs') == 'walk' else 'e:' + out[1]
            m = drv.ask(('romfs-parse', data, 0, 0))
            model = 'ok' if m.startswith('ok') else m.split()[0]
            if model == 'e:unmodelled-block-size':
                model = real
        elif case['kind'] == 'seeddb':
            m = drv.ask(sexp(['seeddb', data]))
            model = 'returned' if m.startswith('ok') else 'raised'
        elif case['kind'] == 'lzss':
            m = drv.ask(sexp(['lzss', data]))
            model = 'returned' if m.startswith('ok') else 'raised'
        elif case['kind'] == 'cfg':
            m = drv.ask(sexp(['cfg-load', data]))
            model = 'returned' if (m.startswith('ok') and ' e:' not in m) else 'raised'
        info = {'kind:' + case['kind']: 1, 'outcome:' + (out[1] if out[0] == 'exc' else out[0]): 1,
                'events/byte:%d' % min(events // max(1, len(data)), 50): 1}
        return CaseResult(real, model, mon, f'{case["kind"]}:{real}:{events // 100}', key, info)

    def shrink(self, case):
        m = case['muts']
        for i in range(len(m)):
            if len(m) > 1:
                c = dict(case)
                c['muts'] = m[:i] + m[i + 1:]
                yield c

    def neighbours(self, case, rng):
        for _ in range(30):
            c = self.gen(rng, 'quick', 0)
            c['kind'] = case['kind']
            yield c


CHECK = C19()
