"""C18 — save containers: writes keep data, hash tree and header mutually consistent."""
import envsetup
import savebuild
import savecommon as sc
from common import Rng
from common import sexp
from framework import CaseResult, Check

FILL = 0xDD


def gen_ops(rng, infos):
    ops = []
    for _ in range(rng.randint(1, 8)):
        pi = rng.randrange(len(infos))
        info = infos[pi]
        D = len(info['data'])
        b4 = 1 << info['ivfc_log2'][3]
        nb = savebuild.ceil_div(D, b4)
        k = rng.randrange(nb)
        r = rng.random()
        if r < 0.08:
            # the bytes the level already holds, written again (restoring a backup, zero-filling a fresh region): the write must
            # still leave every touched block verifying - also one whose hash was uninitialised
            off = rng.pick([k * b4, k * b4, k * b4 + rng.randrange(b4), 0])
            ln = rng.pick([1, b4, b4, 2 * b4, b4 + 3])
            ops.append(('seek', pi, off, 0))
            ops.append(('write', pi, bytes(info['data'][off:off + ln])))
        elif r < 0.5:
            ln = rng.pick([0, 1, 2, b4 - 1, b4, b4 + 1, 2 * b4, 3 * b4 + 5, D, D + 7, rng.randint(0, min(D + 3, 4 * b4))])
            ops.append(('write', pi, rng.rbytes(ln)))
        elif r < 0.75:
            if rng.chance(0.75):
                ops.append(('seek', pi, rng.pick([0, 1, b4 - 1, b4, b4 + 1, k * b4, k * b4 + rng.randrange(b4), D - 1, D, D + 1,
                                                  rng.randint(0, D + 2)]), 0))
            else:
                ops.append(('seek', pi, rng.randint(-D - 2, D + 2), rng.pick([1, 2])))
        elif r < 0.93:
            ops.append(('read', pi, rng.pick([-1, 0, 1, b4, b4 + 1, 2 * b4, D, rng.randint(0, D + 3)])))
        else:
            ops.append(('reopen', 1))
    return ops


class RefPart:
    """specification of one partition's verified level-4 view under writes: stored bytes + per-block validity"""

    def __init__(self, stored, valid, b4):
        self.stored = bytearray(stored)
        self.valid = [v is True for v in valid]
        self.b4 = b4
        self.pos = 0
        self.touched = []          # (pos, length) of every effective write

    def content(self):
        out = bytearray()
        for b, ok in enumerate(self.valid):
            blk = self.stored[b * self.b4:(b + 1) * self.b4]
            out += blk if ok else bytes([FILL]) * len(blk)
        return bytes(out)

    def read(self, n):
        c = self.content()
        avail = max(len(c) - self.pos, 0)
        k = avail if n < 0 else min(n, avail)
        d = c[self.pos:self.pos + k]
        self.pos += k
        return d

    def write(self, w):
        w = w[:max(len(self.stored) - self.pos, 0)]
        if not w:
            return 0
        self.stored[self.pos:self.pos + len(w)] = w
        for b in range(self.pos // self.b4, (self.pos + len(w) - 1) // self.b4 + 1):
            self.valid[b] = True
        self.touched.append((self.pos, len(w)))
        self.pos += len(w)
        return len(w)

    def seek(self, off, wh):
        if wh == 0:
            if off < 0:
                raise ValueError
            self.pos = min(off, len(self.stored))
        elif wh == 1:
            self.pos = max(self.pos + off, 0)
        else:
            self.pos = max(len(self.stored) + off, 0)
        return self.pos


def allowed_changes(info, touched):
    """file positions a write history may modify, from the specification geometry"""
    allowed = set()
    po = info['part_off']
    log2 = info['ivfc_log2']
    lens = [len(l) for l in info['levels']] + [len(info['data'])]
    ranges = list(touched)             # byte ranges in level 4
    for idx in (3, 2, 1, 0):
        bs = 1 << log2[idx]
        blocks = set()
        for (p, n) in ranges:
            for x in range(p, p + n):
                if idx == 3:
                    allowed.add(po + savebuild.lv4_to_partition(info, x))
                else:
                    allowed.add(po + savebuild.view_to_file(info, info['ivfc_off'][idx] + x))
            blocks.update(range(p // bs, (p + n - 1) // bs + 1))
        ranges = [(b * 0x20, 0x20) for b in sorted(blocks)]
    # `ranges` are now the master-hash slots
    for (p, n) in ranges:
        allowed.update(range(info['desc_off'] + 0x10C + p, info['desc_off'] + 0x10C + p + n))
    return allowed


class C18(Check):
    prop = 'C18'
    rule = ('C17 geometries (clean containers, incl. uninitialised blocks), opened read-write or read-only, with or without a '
            'CMAC scheme (NOR0 old/new, SIGN, SYS0, EXT0, 9DB0 SD/NAND with random keys and ids); histories of 1-8 '
            'write/seek/read/re-open operations on either partition: lengths 0, 1, block-1, block, block+1, several blocks, '
            'whole level, past the end, and re-writing the bytes a range already holds; offsets in block 0 and later blocks, unaligned, straddling, at the end; sequential '
            'writes without seeks; then: same-session read-back, re-open with a fresh reader, every block re-verified by the '
            'reference reader, header hash, CMAC, and the set of modified file positions; non-trivial = at least one effective write')
    trusted_base = [
        'Lean 4.33 kernel; axioms propext, Classical.choice, Quot.sound only',
        'SHA-256 and AES-CMAC are parameters of the theorems; the driver uses PyctrModel/Prim/{Sha,Aes,Cmac}.lean, compared with '
        'hashlib / an RFC 4493 transcription over Cryptodome AES-ECB by the correspondence',
        'the independent builder and reference reader (harness/savebuild.py, harness/savecommon.py) are the layout specification',
        'an operation that raises IndexError (geometry without a bit or master hash for a block) ends the compared history: '
        'the partial updates the real objects keep after such an error are not modelled',
    ]
    assumptions = ['container files are at least as long as their declared partitions', 'clean (unaltered) containers']

    def budget(self, tier):
        return 500 if tier == 'quick' else 4000

    def gen(self, rng, tier, i):
        geom = sc.gen_geom(rng, tier)   # zero hashes ABOVE level 3 are generated for C17 only, see DESIGN 11.0 (round 12)
        f, infos = sc.build(geom)
        writable = int(rng.chance(0.85))
        cm = sc.gen_cmac(rng, geom['kind']) if rng.chance(0.6) else None
        if rng.chance(0.15):
            # direct writes to the DPFS level-3 file ("write to the active copy")
            ops = []
            for _ in range(rng.randint(1, 6)):
                pi = rng.randrange(len(infos))
                V, d3 = infos[pi]['V'], infos[pi]['d3']
                if rng.chance(0.6):
                    ln = rng.pick([0, 1, d3 - 1, d3, d3 + 1, 3 * d3, V, V + 5, rng.randint(0, 2 * d3)])
                    ops.append(('dpw', pi, rng.pick([0, 1, d3 - 1, d3, V - 1, V, V + 3, rng.randrange(V + 1)]), rng.rbytes(ln)))
                else:
                    ops.append(('dp', pi, rng.pick([0, d3, rng.randrange(V + 1)]), rng.pick([-1, 0, 1, d3, V])))
            return {'geom': geom, 'writable': writable, 'cmac': None, 'mode': 'lv3', 'ops': [list(o) for o in ops]}
        ops = gen_ops(rng, infos)
        return {'geom': geom, 'writable': writable, 'cmac': cm, 'ops': [list(o) for o in ops]}

    def run_case(self, case, drv):
        envsetup.install()
        geom = case['geom']
        f, infos = sc.build(geom)
        ops = [tuple(o) for o in case['ops']]
        writable = bool(case['writable'])
        cm = case.get('cmac')
        real, sess, outs = sc.run_real(geom['kind'], f, writable, ops, cm)
        model = sc.run_model(drv, geom['kind'], f, writable, ops, cm)
        mon = []
        info_d = {f'kind:{geom["kind"]}{len(infos)}': 1, f'writable:{writable}': 1, f'cmac:{cm["name"] if cm else None}': 1}
        if real.startswith('e:'):
            mon.append(f'a clean container was rejected: {real}')
            return CaseResult(real, model, mon, '', None, info_d)
        # non-vacuity of the hash-path theorem: are its hypotheses (regular geometry, layout, descriptor room) met by this image?
        hyp = drv.ask(sexp(['save-hyp', geom['kind'], f]))
        parts_h = hyp.split()[1:] if hyp.startswith('ok') else []
        info_d['theorem-hypotheses:' + ('all-met' if parts_h and all(x.split('+')[0].endswith(':gldtwr') for x in parts_h) else hyp[:40])] = 1
        # the same-session theorems (C18_session*) additionally need a fully verifying tree; images with uninitialised blocks are
        # generated on purpose, so this is a count, not a requirement
        info_d['same-session-theorems-apply:' + ('yes' if parts_h and all(x.endswith('+v') for x in parts_h) else 'no (uninitialised or invalid blocks)')] = 1
        if case.get('mode') == 'lv3':
            return self.run_lv3(case, f, infos, ops, writable, real, model, sess, outs, info_d)
        refs = []
        for info in infos:
            exp, chain, levels = sc.ref_content(f, info)
            refs.append(RefPart(levels[3], chain, 1 << info['ivfc_log2'][3]))
        effective = 0
        stopped = False
        cur_w = writable
        for op, out in zip(ops, outs):
            if op[0] == 'reopen':
                if out != 'ok':
                    mon.append(f're-opening after the writes failed: {out}')
                    break
                for r in refs:
                    r.pos = 0
                cur_w = bool(op[1])
                continue
            pi = op[1]
            ref = refs[pi]
            if op[0] == 'write':
                p = ref.pos
                if not cur_w:
                    want_n = min(len(op[2]), max(len(ref.stored) - p, 0))
                    if want_n == 0:
                        if out != 'n:0':
                            mon.append(f'empty write returned {out}')
                    elif out != 'e:IVFCReadOnlyError':
                        mon.append(f'write on a read-only container gave {out}, expected IVFCReadOnlyError')
                    continue
                want = ref.write(op[2])
                if want:
                    effective += 1
                if out.startswith('e:'):
                    mon.append(f'write of {len(op[2])} bytes at {p} raised {out}')
                    stopped = True
                    break
                if out != 'n:%d' % want:
                    mon.append(f'write of {len(op[2])} bytes at {p} returned {out}, an ordinary file of this size returns {want}')
            elif op[0] == 'seek':
                try:
                    want = ref.seek(op[2], op[3])
                except ValueError:
                    if out != 'e:ValueError':
                        mon.append(f'seek({op[2]}) gave {out}')
                    continue
                if out != 'n:%d' % want:
                    mon.append(f'seek{op[2:]} returned {out}; the position after the preceding operations should be {want}')
            elif op[0] == 'read':
                p = ref.pos
                want = ref.read(op[2])
                got = bytes.fromhex(out[2:]) if out.startswith('b:') and out != 'b:-' else b''
                if out.startswith('e:'):
                    mon.append(f'read at {p} raised {out}')
                    stopped = True
                    break
                if got != want:
                    k = next((j for j in range(min(len(got), len(want))) if got[j] != want[j]), min(len(got), len(want)))
                    mon.append(f'same-session read({op[2]}) at {p} does not return the written data over the previous contents '
                               f'(first difference at +{k}, byte {"0xDD filler" if k < len(got) and got[k] == FILL else "other"})')
            if mon:
                break
        if not mon and not stopped and sess is not None:
            final = sess.bio.getvalue()
            if not effective:
                if final != f:
                    mon.append('the file was modified although nothing was written' + ('' if writable else ' (opened read-only)'))
            else:
                # fresh reader over the same bytes
                real2, s2, outs2 = sc.run_real(geom['kind'], final, False, [x for pi in range(len(infos)) for x in (('seek', pi, 0, 0), ('read', pi, -1))], None)
                if real2.startswith('e:'):
                    mon.append(f'the file cannot be re-opened after the writes: {real2}')
                else:
                    for pi, info in enumerate(infos):
                        got = bytes.fromhex(outs2[2 * pi + 1][2:]) if outs2[2 * pi + 1] != 'b:-' else b''
                        if got != refs[pi].content():
                            mon.append(f'after re-opening, partition {pi} does not read back as the written data over the previous contents')
                        exp, chain, _ = sc.ref_content(final, info)
                        bad = [b for b, ok in enumerate(chain) if refs[pi].valid[b] and ok is not True]
                        if bad:
                            mon.append(f'partition {pi}: blocks {bad[:6]} do not verify against the updated hash levels / master hash')
                    i0 = infos[0]
                    table = final[i0['table_off']:i0['table_off'] + i0['table_len']]
                    hh = final[i0['header_hash'][0]:i0['header_hash'][0] + 0x20]
                    if sc.sha(table) != hh:
                        mon.append('the header hash does not match the active partition table after the writes')
                    if cm and effective:
                        if final[0:0x10] != sc.expected_cmac(cm, final[0x100:0x200]):
                            mon.append(f'the CMAC ({cm["name"]}) does not match the updated header')
                # frame: only the active copies, the hash path and the header fields may change
                allowed = set(range(0, 0x10)) if (cm and effective) else set()
                allowed.update(range(infos[0]['header_hash'][0], infos[0]['header_hash'][0] + 0x20))
                for pi, info in enumerate(infos):
                    allowed |= allowed_changes(info, refs[pi].touched)
                # a DIFF descriptor that the header declares larger than DIFI + IVFC + DPFS + master hashes: the descriptor is re-written as
                # one record (it is what the header hash covers) and its trailing slack comes out as zeros - allowed, as zeros only
                slack = set()
                if geom['kind'] == 'diff' and effective and refs[0].touched:
                    i0 = infos[0]
                    slack = set(range(i0['desc_off'] + i0['desc_len'], i0['table_off'] + i0['table_len']))
                    if any(final[k] != 0 for k in slack):
                        mon.append('the slack of the re-written partition descriptor holds something other than zeros')
                    allowed |= slack
                    if slack:
                        info_d['descriptor declared larger than its parts'] = 1
                if len(final) != len(f):
                    mon.append(f'file length changed from {len(f)} to {len(final)}')
                else:
                    outside = [k for k in range(len(f)) if final[k] != f[k] and k not in allowed]
                    if outside:
                        mon.append(f'bytes outside the active copies, the hash path and the header fields were modified: {outside[:8]}')
        sig = f'{geom["kind"]}:{writable}:{cm["name"] if cm else None}:{effective}' if effective or not writable else ''
        info_d[f'effective_writes:{min(effective, 4)}'] = 1
        return CaseResult(real, model, mon, sig, None, info_d)

    def run_lv3(self, case, f, infos, ops, writable, real, model, sess, outs, info_d):
        mon = []
        views = [bytearray(sc.ref_view(f[i['part_off']:i['part_off'] + i['part_len']], i)[0]) for i in infos]
        allowed = set()
        eff = 0
        for op, out in zip(ops, outs):
            pi = op[1]
            v = views[pi]
            info = infos[pi]
            pos = min(op[2], len(v))
            if op[0] == 'dpw':
                if not writable:
                    if out != 'e:DPFSReadOnlyError':
                        mon.append(f'level-3 write on a read-only container gave {out}')
                    continue
                w = op[3][:max(len(v) - pos, 0)]
                if out != 'n:%d' % len(w):
                    mon.append(f'level-3 write of {len(op[3])} bytes at {op[2]} returned {out}, expected {len(w)}')
                    break
                if w:
                    eff += 1
                    v[pos:pos + len(w)] = w
                    allowed.update(info['part_off'] + savebuild.view_to_file(info, x) for x in range(pos, pos + len(w)))
            else:
                got = bytes.fromhex(out[2:]) if out.startswith('b:') and out != 'b:-' else b''
                want = bytes(v[pos:]) if op[3] < 0 else bytes(v[pos:pos + op[3]])
                if out.startswith('e:') or got != want:
                    mon.append(f'level-3 read({op[3]}) at {op[2]} does not return the written data over the previous view')
                    break
        if not mon and sess is not None:
            final = sess.bio.getvalue()
            if len(final) != len(f):
                mon.append('file length changed')
            else:
                outside = [k for k in range(len(f)) if final[k] != f[k] and k not in allowed]
                if outside:
                    mon.append(f'level-3 writes modified bytes outside the active copy: {outside[:8]}')
                for pi, info in enumerate(infos):
                    if sc.ref_view(final[info['part_off']:info['part_off'] + info['part_len']], info)[0] != bytes(views[pi]):
                        mon.append(f'partition {pi}: the active-copy view is not the written data over the previous view')
        info_d['mode:lv3'] = 1
        return CaseResult(real, model, mon, f'lv3:{writable}:{eff}', None, info_d)

    def shrink(self, case):
        ops = case['ops']
        for i in range(len(ops)):
            c = dict(case)
            c['ops'] = ops[:i] + ops[i + 1:]
            yield c
        if case.get('cmac'):
            c = dict(case)
            c['cmac'] = None
            yield c
        for i, o in enumerate(ops):
            if o[0] == 'write' and len(o[2]) > 1:
                c = dict(case)
                c['ops'] = ops[:i] + [['write', o[1], o[2][:len(o[2]) // 2]]] + ops[i + 1:]
                yield c
            if o[0] == 'dpw' and len(o[3]) > 1:
                c = dict(case)
                c['ops'] = ops[:i] + [['dpw', o[1], o[2], o[3][:len(o[3]) // 2]]] + ops[i + 1:]
                yield c

    def neighbours(self, case, rng):
        geom = case['geom']
        f, infos = sc.build(geom)
        if case.get('mode') == 'lv3':
            return
        for _ in range(60):
            yield {'geom': geom, 'writable': 1, 'cmac': case.get('cmac'), 'ops': [list(o) for o in gen_ops(rng, infos)]}


CHECK = C18()
