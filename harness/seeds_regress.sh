#!/bin/bash
# applies every kept seeded change in turn, runs the property's quick check, restores the tree; prints which were detected.
# usage: harness/seeds_regress.sh [name-prefix] [repo-copy]
#   with a repo copy (e.g. $VP_RUN_REPO) nothing touches /repo and the checks run against the copy (VERIF_REPO)
here="$(cd "$(dirname "$0")/.." && pwd)"
repo="${2:-/repo}"
cd "$repo" && git status --short | grep -q . && { echo "$repo not clean"; exit 2; }
[ -x "$here/lean/.lake/build/bin/pyctr_model" ] || (cd "$here/lean" && lake build >/dev/null 2>&1)
miss=0
for d in "$here"/seeded/${1:-}*; do
  n=$(basename "$d"); p=${n%%-*}
  if ! (cd "$repo" && git apply "$d/patch.diff" 2>/dev/null); then echo "$n: patch does not apply to the current tree"; miss=$((miss+1)); continue; fi
  out=$(cd "$here" && VERIF_REPO="$repo" timeout 900 ./check "$p" 2>&1 | grep -m1 VIOLATION)
  git -C "$repo" checkout -q -- .
  if [ -n "$out" ]; then echo "$n: detected ($out)"; else echo "$n: MISSED"; miss=$((miss+1)); fi
done
echo "seeds not detected: $miss"
exit $([ $miss -eq 0 ] && echo 0 || echo 1)
