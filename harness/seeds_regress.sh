#!/bin/bash
# applies every kept seeded change to /repo in turn, runs the property's quick check, restores /repo; prints which were detected.
# usage: harness/seeds_regress.sh [name-prefix]
cd /repo && git status --short | grep -q . && { echo "/repo not clean"; exit 2; }
miss=0
for d in /verif/seeded/${1:-}*; do
  n=$(basename "$d"); p=${n%%-*}
  if ! (cd /repo && git apply "$d/patch.diff" 2>/dev/null); then echo "$n: patch does not apply to the current tree"; miss=$((miss+1)); continue; fi
  out=$(cd /verif && timeout 900 ./check "$p" 2>&1 | grep -m1 VIOLATION)
  git -C /repo checkout -q -- .
  if [ -n "$out" ]; then echo "$n: detected ($out)"; else echo "$n: MISSED"; miss=$((miss+1)); fi
done
echo "seeds not detected: $miss"
exit $([ $miss -eq 0 ] && echo 0 || echo 1)
