"""C10 — CCI, CDN and SD-title containers expose exactly the NCCHs packed in them."""
import hashlib
import io
import shutil
import tempfile

import ciabuild
import envsetup
import ncchbuild
from common import Rng, exc_name
from corr_c05 import gen_ncch_desc
from corr_c14 import expected_iv
from filestack import ctr_xor
from framework import CaseResult, Check


def nested_ok(reader, desc):
    """every packed ExeFS file is reproduced by the nested reader"""
    if reader.exefs is None:
        return False
    for n, content in desc['exefs_files']:
        try:
            if reader.exefs.open(n).read() != content:
                return False
        except Exception:  # noqa
            return False
    return True


class C10(Check):
    prop = 'C10'
    rule = ('1-3 NCCHs (C03 configurations, distinct keys) packaged four ways: NCSD cartridge image (partitions at '
            'arbitrary media-unit offsets and table slots, optional start offset; media id zero / wrong magic variants), '
            'CDN directory (tmd + cetk | encrypted key + index | decrypted key; encrypted or plain contents; lower or '
            'upper case names; missing files), installed SD title (plain directory, or SD-encrypted under '
            '/title/<hi>/<lo>/content and opened through SDRoot.open_title, tmd names incl. hexadecimal letters); '
            'OS temp directories and MemoryFS; monitor: listed partitions/contents = the present ones, raw bytes and '
            'nested ExeFS files identical to the packed NCCH; non-trivial = always')
    trusted_base = [
        'Lean 4.33 kernel; axioms propext, Classical.choice, Quot.sound only',
        'independent builders (NCSD header, CDN/SD layouts, ticket, TMD, NCCH) are the specification',
        'pyfilesystem2 / pathlib behaviour is modelled at the level "open returns the file bytes"; data planes reuse the '
        'C02 / C03 / C14 models',
    ]
    assumptions = ['seed database empty']

    def budget(self, tier):
        return 20 if tier == 'quick' else 250

    def gen(self, rng, tier, i):
        return {'seed': rng.getrandbits(32), 'kind': rng.pick(['cci', 'cdn', 'cdn', 'sdplain', 'sdenc']),
                'n': rng.randint(1, 3), 'backend': rng.pick(['mem', 'os']), 'variant': rng.randrange(1 << 16)}

    # ------------------------------------------------------------------------------------------------------------
    def run_case(self, case, drv):
        rng = Rng(case['seed'])
        e = envsetup.install()
        envsetup.reset_seeddb()
        tid = bytes.fromhex('00040000') + rng.rbytes(3) + b'\0'
        prog = int.from_bytes(tid, 'big')
        ncchs = []
        for k in range(case['n']):
            d = gen_ncch_desc(rng, prog)
            d['rng'] = Rng(case['seed'] + k)
            img, info = ncchbuild.build(d)
            ncchs.append((d, img))
        fn = getattr(self, 'run_' + case['kind'])
        tmp = tempfile.mkdtemp(prefix='pyctr-verif-c10-') if case['backend'] == 'os' or case['kind'] == 'sdenc' else None
        try:
            real, model, mon, key, info = fn(case, rng, e, tid, ncchs, drv, tmp)
        finally:
            if tmp:
                shutil.rmtree(tmp, ignore_errors=True)
        info['kind:' + case['kind']] = 1
        return CaseResult(real, model, mon, sig=str(hash(real)), key=key, info=info)

    def make_fs(self, case, tmp):
        from fs.memoryfs import MemoryFS
        from fs.osfs import OSFS
        return OSFS(tmp) if case['backend'] == 'os' else MemoryFS()

    # ------------------------------------------------------------------------------------------------------------
    def run_cci(self, case, rng, e, tid, ncchs, drv, tmp):
        from pyctr.type.cci import CCIReader
        v = case['variant']
        slots = sorted(rng.sample(range(8), len(ncchs)))
        table = [(0, 0)] * 8
        body = bytearray()
        cur = rng.pick([1, 2, 0xB, 0x10, 0x1F, 0x20, 0x20, 0x21, 0x40, 0x40, 0x1234])           # first partition, in media units: anywhere after the header
        placed = {}
        # the order of the partitions IN THE IMAGE need not be the order of their table slots (manual before the application,
        # the update partition first, ...)
        order = list(zip(slots, ncchs))
        if rng.chance(0.5):
            rng.shuffle(order)
        for slot, (d, img) in order:
            cur += rng.pick([0, 0, 1, 3])
            table[slot] = (cur, len(img) // 0x200)
            placed[slot] = (cur * 0x200, d, img)
            cur += len(img) // 0x200
        image = bytearray(cur * 0x200)
        for slot, (off, d, img) in placed.items():
            image[off:off + len(img)] = img
        hdr = bytearray(0x200)
        hdr[0:0x100] = rng.rbytes(0x100)
        hdr[0x100:0x104] = b'NCSD'
        hdr[0x104:0x108] = cur.to_bytes(4, 'little')
        hdr[0x108:0x110] = tid[::-1]
        # everything the reader has no business interpreting is arbitrary: partition fs/crypt types, the extended header hash,
        # sizes, and the partition FLAGS (0x188..0x18F: media type, card device, the SDK 2.x card-device byte, ...)
        hdr[0x110:0x120] = rng.rbytes(0x10)
        hdr[0x160:0x200] = rng.rbytes(0xA0)
        if rng.chance(0.5):
            hdr[0x188:0x190] = bytes(rng.pick([0, 0, 1, 2, 3, 0xFF]) for _ in range(8))
        for i, (o, s) in enumerate(table):
            hdr[0x120 + 8 * i:0x124 + 8 * i] = o.to_bytes(4, 'little')
            hdr[0x124 + 8 * i:0x128 + 8 * i] = s.to_bytes(4, 'little')
        bad = rng.pick([None, None, None, 'magic', 'media'])
        if bad == 'magic':
            hdr[0x101] ^= 0x20
        elif bad == 'media':
            hdr[0x108:0x110] = bytes(8)
        image[0:0x200] = hdr
        start = rng.pick([0, 0, 0x200, 0x777])
        file_bytes = b'\xEE' * start + bytes(image)
        base = io.BytesIO(file_bytes)
        base.seek(start)
        mon, key = [], None
        try:
            rd = CCIReader(base, closefd=False)
            parts = [(int(s), r.offset, r.size) for s, r in rd.sections.items() if int(s) >= 0]
            real = f'ok media={bytes.fromhex(rd.media_id)[::-1].hex()} size={rd.image_size} parts=' + ','.join('%d:%d:%d' % p for p in parts)
        except Exception as ex:  # noqa
            rd = None
            real = 'e:' + exc_name(ex)
        model = drv.ask(('cci-parse', file_bytes, start))
        if bad:
            if real != 'e:InvalidCCIError':
                mon.append(f'cartridge image with bad {bad} gave {real[:40]} instead of InvalidCCIError')
                key = 'cci.reject'
        elif rd is None:
            mon.append(f'well-formed cartridge image rejected: {real}')
            key = 'cci.init'
        else:
            if [p[0] for p in parts] != slots:
                mon.append(f'partitions listed {[p[0] for p in parts]} but packed {slots}')
                key = 'cci.partitions'
            from pyctr.type.cci import CCISection
            for slot, (off, d, img) in placed.items():
                raw = rd.open_raw_section(CCISection(slot)).read()
                if raw != img:
                    mon.append(f'partition {slot}: raw bytes differ from the packed NCCH')
                    key = 'cci.raw'
                elif not nested_ok(rd.contents[CCISection(slot)], d):
                    mon.append(f'partition {slot}: nested ExeFS files differ from the packed NCCH')
                    key = 'cci.nested'
        return real, model, mon, key, {'bad:%s' % bad: 1}

    # ------------------------------------------------------------------------------------------------------------
    def run_cdn(self, case, rng, e, tid, ncchs, drv, tmp):
        from pyctr.type.cdn import CDNReader
        fs = self.make_fs(case, tmp)
        dev = False
        eng = e.CryptoEngine()
        titlekey = rng.rbytes(16)
        ck = rng.pick([0, 1, 2, 3, 4, 5])
        records, present, wire_recs, files = [], [], [], {}
        for k, (d, img) in enumerate(ncchs):
            cid = rng.rbytes(3) + bytes([rng.pick([0x0a, 0xbc, 0x10, 0xef])])
            cindex = rng.pick([k, k + 7, 0x10 + k])
            enc = rng.chance(0.7)
            stored = ciabuild.encrypt_content(titlekey, cindex, img) if enc else img
            records.append((cid, cindex, 1 if enc else 0, len(img), hashlib.sha256(img).digest()))
            mode = rng.pick(['lower', 'upper', 'missing', 'lower', 'both'])
            names = []
            if mode in ('lower', 'both'):
                names.append(cid.hex())
            if mode in ('upper', 'both') and cid.hex().upper() != cid.hex():
                names.append(cid.hex().upper())
            for n in names:
                files[n] = stored if n == names[0] or case['backend'] != 'os' else stored
            present.append((k, bool(names)))
            wire_recs.append((cid.hex().encode(), cid.hex().upper().encode()))
        tmd = ciabuild.build_tmd(tid, records, rng=rng)
        sub = rng.pick(['', 'title'])
        if sub:
            fs.makedirs(sub, recreate=True)
        p = (sub + '/') if sub else ''
        fs.writebytes(p + 'tmd', tmd)
        for n, data in files.items():
            fs.writebytes(p + n, data)
        keymode = rng.pick(['ticket', 'enc', 'dec'])
        kwargs = {}
        if keymode == 'ticket':
            fs.writebytes(p + 'cetk', ciabuild.build_ticket(titlekey, tid, ck, dev, size=rng.pick([0x350, 0x2AC, 0xA50])))
        elif keymode == 'enc':
            from Cryptodome.Cipher import AES
            kwargs = {'titlekey': AES.new(ciabuild.common_key(ck), AES.MODE_CBC, tid + b'\0' * 8).encrypt(titlekey),
                      'common_key_index': ck}
        else:
            kwargs = {'decrypted_titlekey': titlekey}
        mon, key = [], None
        own_engine = rng.chance(0.5)            # half of the readers are given no engine and make their own
        other = None
        try:
            rd = CDNReader(p + 'tmd', fs=fs, **(dict(kwargs) if own_engine else dict(kwargs, crypto=eng)))
            real = 'ok ' + ' '.join(str(r.cindex) for r in rd.content_info)
            # a SECOND title (other title id, other title key) is opened next to it and stays open while the first one is read:
            # readers must not share key state, however they got their engines
            if ncchs and rng.chance(0.6):
                tk2, tid2 = rng.rbytes(16), bytes.fromhex('00040000') + rng.rbytes(3) + b'\0'
                img2 = ncchs[0][1]
                cid2 = rng.rbytes(4)
                fs.makedirs('second', recreate=True)
                fs.writebytes('second/tmd', ciabuild.build_tmd(tid2, [(cid2, 0, 1, len(img2), hashlib.sha256(img2).digest())], rng=rng))
                fs.writebytes('second/' + cid2.hex(), ciabuild.encrypt_content(tk2, 0, img2))
                other = CDNReader('second/tmd', fs=fs, decrypted_titlekey=tk2, **({} if rng.chance(0.5) else {'crypto': e.CryptoEngine()}))
        except Exception as ex:  # noqa
            rd = None
            real = 'e:' + exc_name(ex)
            mon.append(f'CDN directory ({keymode}) rejected: {real}')
            key = 'cdn.init'
        existing = sorted(files)
        m = drv.ask(('cdn-select', tuple(n.encode() for n in existing) or (), tuple(wire_recs)))
        model = 'ok ' + ' '.join(str(records[i][1]) for i, c in enumerate(m.split(' ')) if c != 'skip') if rd is not None else real
        if rd is not None:
            # the model's key set-up (theorem C10_cdn_key_sources) on the same arguments: the packed title key, whatever its source
            mk = drv.ask(('cdn-key', 0, e._b9_keyblob['retail'], tid, kwargs.get('decrypted_titlekey', b''), kwargs.get('titlekey', b''),
                          kwargs.get('common_key_index', 0), fs.readbytes(p + 'cetk') if keymode == 'ticket' else 'none'))
            real += ' tk=' + titlekey.hex()
            model += ' tk=' + mk
        if rd is not None:
            exp = [records[k][1] for k, there in present if there]
            if [r.cindex for r in rd.content_info] != exp:
                mon.append(f'content_info {[r.cindex for r in rd.content_info]} != contents present {exp}')
                key = 'cdn.selection'
            if not own_engine and other is None and eng.key_normal.get(0x40) != titlekey:
                mon.append(f'title key from key mode {keymode} differs from the packed one')
                key = 'cdn.titlekey'
            for k, there in present:
                if there:
                    d, img = ncchs[k]
                    try:
                        raw = rd.open_raw_section(records[k][1]).read()
                    except Exception as ex:  # noqa
                        mon.append(f'content {records[k][1]} is present but could not be opened: {exc_name(ex)}')
                        key = 'cdn.selection'
                        continue
                    if raw != img:
                        mon.append(f'content {records[k][1]}: decrypted bytes differ from the packed NCCH')
                        key = 'cdn.raw'
                    elif not nested_ok(rd.contents[records[k][1]], d):
                        mon.append(f'content {records[k][1]}: nested ExeFS files differ')
                        key = 'cdn.nested'
            if other is not None:
                try:
                    if other.open_raw_section(0).read() != ncchs[0][1]:
                        mon.append('the second title opened next to the first one: decrypted bytes differ from the packed NCCH')
                        key = 'cdn.raw'
                except Exception as ex:  # noqa
                    mon.append(f'the second title opened next to the first one could not be read: {exc_name(ex)}')
                    key = 'cdn.raw'
                other.close()
            rd.close()
        return real, model, mon, key, {'keymode:' + keymode: 1, 'engine:%s' % ('own' if own_engine else 'given'): 1,
                                       'second title open alongside:%s' % (other is not None): 1}

    # ------------------------------------------------------------------------------------------------------------
    def run_sdplain(self, case, rng, e, tid, ncchs, drv, tmp):
        from pyctr.type.sdtitle import SDTitleReader
        fs = self.make_fs(case, tmp)
        records, present = [], []
        for k, (d, img) in enumerate(ncchs):
            cid = rng.rbytes(3) + bytes([rng.pick([0x0a, 0xbc, 0x10])])
            records.append((cid, k, 0, len(img), hashlib.sha256(img).digest()))
            there = rng.chance(0.8)
            present.append(there)
            if there:
                fs.writebytes(cid.hex() + '.app', img)
        tmdname = rng.pick(['00000000.tmd', '0000000a.tmd', '000000ff.tmd'])
        fs.writebytes(tmdname, ciabuild.build_tmd(tid, records, rng=rng))
        mon, key = [], None
        # the caller's filesystem object serves SEVERAL readers: one opened and closed before (1), or one held alongside and closed
        # before this one is used (2) - the filesystem belongs to the caller, no reader may close it or spoil it for the others
        hist = case['seed'] % 3
        try:
            if hist == 1:
                prior = SDTitleReader(tmdname, fs=fs)
                for k, there in enumerate(present):
                    if there:
                        prior.open_raw_section(k).read(0x20)
                prior.close()
                del prior
        except Exception:  # noqa
            pass
        try:
            other = SDTitleReader(tmdname, fs=fs) if hist == 2 else None
            rd = SDTitleReader(tmdname, fs=fs)
            if other is not None:
                other.close()
            real = 'ok ' + ' '.join(str(r.cindex) for r in rd.content_info)
        except Exception as ex:  # noqa
            rd = None
            real = 'e:' + exc_name(ex)
            mon.append(f'SD title directory rejected: {real}')
            key = 'sdtitle.init'
        # model side: the content loop of the Lean model (SdTitle.select) on the record names and the set of existing files;
        # the monitor below compares with the presence flags directly
        names_ = [(r[0].hex() + '.app').encode() for r in records]
        m_ = drv.ask(('sdtitle-select', tuple(n for n, t in zip(names_, present) if t) or (), tuple(names_)))
        if rd is not None and real != 'ok ' + ' '.join(str(k) for k, t in enumerate(present) if t):
            mon.append(f'contents listed: {real}; files present for records {[k for k, t in enumerate(present) if t]}')
            key = 'sdtitle.listing'
        real = real.rstrip()
        model = m_.rstrip() if rd is not None else real
        if rd is not None:
            for k, there in enumerate(present):
                if there:
                    d, img = ncchs[k]
                    if rd.open_raw_section(k).read() != img or not nested_ok(rd.contents[k], d):
                        mon.append(f'content {k}: bytes or nested files differ from the packed NCCH')
                        key = 'sdtitle.content'
            rd.close()
            try:
                still = (not fs.isclosed()) and fs.exists(tmdname)
            except Exception:  # noqa
                still = False
            if not still:
                mon.append("the caller's filesystem object was closed (or made unusable) by closing a reader")
                key = 'sdtitle.fs-closed'
        return real, model, mon, key, {'sdtitle history:%d' % hist: 1}

    def run_sdenc(self, case, rng, e, tid, ncchs, drv, tmp):
        from fs.memoryfs import MemoryFS
        from fs.osfs import OSFS
        from pyctr.type.sdfs import SDRoot
        eng = e.CryptoEngine()
        eng.setup_sd_key(rng.rbytes(16))
        sdkey = eng.key_normal[0x34]
        base = OSFS(tmp) if case['backend'] == 'os' else MemoryFS()
        id0, id1 = eng.id0.hex(), rng.rbytes(16).hex()
        tidhex = tid.hex()
        cdir = f'title/{tidhex[:8]}/{tidhex[8:]}/content'
        base.makedirs(f'{id0}/{id1}/{cdir}')

        def put(name, data):
            iv = expected_iv(f'/{cdir}/{name}')
            base.writebytes(f'{id0}/{id1}/{cdir}/{name}', ctr_xor(sdkey, iv, data, False))
        records, present = [], []
        for k, (d, img) in enumerate(ncchs):
            cid = rng.rbytes(3) + bytes([rng.pick([0x0a, 0xbc, 0x10])])
            records.append((cid, k, 0, len(img), hashlib.sha256(img).digest()))
            there = rng.chance(0.8)
            present.append(there)
            if there:
                put(cid.hex() + '.app', img)
        names = rng.pick([['00000000.tmd'], ['0000000a.tmd'], ['0000000b.tmd', '0000000a.tmd'], ['00000010.tmd', '0000000f.tmd']])
        active = min(names, key=lambda n: int(n[:8], 16))
        for n in names:
            put(n, ciabuild.build_tmd(tid, records if n == active else [], rng=rng))
        mon, key = [], None
        try:
            root = SDRoot(base, crypto=eng)
            rd = root.open_title(tidhex.upper() if rng.chance(0.3) else tidhex)
            real = 'ok ' + ' '.join(str(r.cindex) for r in rd.content_info)
        except Exception as ex:  # noqa
            rd = None
            real = 'e:' + exc_name(ex)
            mon.append(f'SD-encrypted title ({names}) rejected: {real}')
            key = 'sdtitle.enc.init'
        # model side: the content loop of the Lean model (SdTitle.select) on the record names and the set of existing files;
        # the monitor below compares with the presence flags directly
        names_ = [(r[0].hex() + '.app').encode() for r in records]
        m_ = drv.ask(('sdtitle-select', tuple(n for n, t in zip(names_, present) if t) or (), tuple(names_)))
        if rd is not None and real != 'ok ' + ' '.join(str(k) for k, t in enumerate(present) if t):
            mon.append(f'contents listed: {real}; files present for records {[k for k, t in enumerate(present) if t]}')
            key = 'sdtitle.listing'
        real = real.rstrip()
        model = m_.rstrip() if rd is not None else real
        if rd is not None:
            for k, there in enumerate(present):
                if there:
                    d, img = ncchs[k]
                    if rd.open_raw_section(k).read() != img or not nested_ok(rd.contents[k], d):
                        mon.append(f'content {k}: bytes or nested files differ from the packed NCCH')
                        key = 'sdtitle.enc.content'
            rd.close()
        return real, model, mon, key, {'tmds:%d' % len(names): 1}

    def shrink(self, case):
        if case['n'] > 1:
            yield dict(case, n=case['n'] - 1)
        if case['backend'] == 'os':
            yield dict(case, backend='mem')

    def neighbours(self, case, rng):
        for i in range(40):
            yield dict(self.gen(rng, 'quick', i), kind=case['kind'])


CHECK = C10()
