"""Shared pieces of the C17 / C18 checks: geometry generation, reference (specification) reader, real-op runner."""
import hashlib
import io

import savebuild
from common import Rng, exc_name, sexp

ZERO = bytes(0x20)


def sha(b):
    return hashlib.sha256(b).digest()


# the active-table field: 0 = primary, ANY other value = secondary (DIFF: 32-bit little-endian word, DISA: one byte)
ACTIVE_VALUES = [0, 0, 0, 1, 1, 2, 0x80, 0xFF, 0x100, 0x10000, 0x80000000, 0xFFFFFF00]


def gen_geom(rng, tier, upper=False):
    kind = rng.pick(['diff', 'diff', 'disa', 'disa2'])
    nparts = 2 if kind == 'disa2' else 1
    parts = []
    wide = rng.chance(0.03)       # more than 32 level-2 bitmap blocks: a second level-1 word
    for _ in range(nparts):
        if wide:
            parts.append({'size': 256 * rng.randint(62, 70) - rng.randrange(200), 'ivfc_log2': [5, rng.pick([5, 6]), rng.pick([5, 6, 7]), 8],
                          'dpfs_log2': [None, 2, 4], 'external': 0, 'selector': rng.getrandbits(1),
                          'uninit': sorted(set(rng.randrange(60) for _ in range(rng.pick([0, 0, 1]))))})
            continue
        l4 = rng.pick([4, 5, 6, 6, 7, 8])
        b4 = 1 << l4
        nb = rng.pick([1, 2, 3, 5, 8, 9, 17, rng.randint(1, 24)])
        size = max(1, nb * b4 - rng.pick([0, 0, 1, b4 // 2, rng.randrange(b4)]))
        parts.append({'size': size, 'ivfc_log2': [rng.pick([5, 5, 6, 7]), rng.pick([5, 6, 6, 7]), rng.pick([5, 6, 7, 8]), l4],
                      'dpfs_log2': [None, rng.pick([2, 3, 3, 4, 5]), rng.pick([4, 5, 6, 7])],
                      'external': int(rng.chance(0.35)), 'selector': rng.getrandbits(1),
                      'uninit': sorted(set(rng.randrange(nb) for _ in range(rng.pick([0, 0, 0, 1, 2]))))})
    if upper:
        # half-initialised trees: a zero expected hash one or two levels ABOVE the data hashes (a missing link in the chain)
        for p in parts:
            if rng.chance(0.35):
                p['uninit_up'] = [[rng.pick([3, 3, 2]), rng.randrange(8)] for _ in range(rng.pick([1, 1, 2]))]
    return {'desc_pad': rng.pick([0, 0, 0, 4, 0x14]),
            'kind': 'disa' if kind.startswith('disa') else 'diff', 'active': rng.pick(ACTIVE_VALUES), 'parts': parts,
            'seed': rng.getrandbits(32)}


def build(geom):
    """-> (file bytes, [info per partition])"""
    rng = Rng(geom['seed'])
    datas = [rng.rbytes(p['size']) for p in geom['parts']]
    if geom['kind'] == 'diff':
        p = geom['parts'][0]
        f, infos = savebuild.build_diff(rng, datas[0], active=geom['active'], desc_pad=geom.get('desc_pad', 0), ivfc_log2=tuple(p['ivfc_log2']),
                                        dpfs_log2=tuple(p['dpfs_log2']), external=bool(p['external']), selector=p['selector'],
                                        uninit_blocks=tuple(p['uninit']), uninit_up=tuple(tuple(x) for x in p.get('uninit_up', ())))
        return f, infos
    # the builder takes one keyword set: build partitions separately by calling with per-partition kwargs
    return build_disa_multi(rng, datas, geom)


def build_disa_multi(rng, datas, geom):
    import struct
    descs, parts, infos = [], [], []
    for d, p in zip(datas, geom['parts']):
        desc, part, info = savebuild.build_partition(rng, d, ivfc_log2=tuple(p['ivfc_log2']), dpfs_log2=tuple(p['dpfs_log2']),
                                                     external=bool(p['external']), selector=p['selector'],
                                                     uninit_blocks=tuple(p['uninit']), uninit_up=tuple(tuple(x) for x in p.get('uninit_up', ())))
        descs.append(desc); parts.append(part); infos.append(info)
    active = geom['active']
    table = bytearray()
    desc_offs = []
    for desc in descs:
        table += rng.rbytes(rng.pick([0, 0, 4]))
        desc_offs.append(len(table))
        table += desc
    table += rng.rbytes(rng.pick([0, 0, 8]))
    table = bytes(table)
    sec_off = 0x200
    prim_off = sec_off + len(table) + rng.pick([0, 0x20])
    pos = (prim_off + len(table) + 0xFF) // 0x100 * 0x100
    part_offs = []
    for p in parts:
        part_offs.append(pos)
        pos = (pos + len(p) + 0xFF) // 0x100 * 0x100
    header = bytearray(0x100)
    header[0:8] = b'DISA\0\0\x04\0'
    header[0x8:0xC] = len(parts).to_bytes(4, 'little')
    header[0x10:0x28] = struct.pack('<QQQ', sec_off, prim_off, len(table))
    header[0x28:0x38] = struct.pack('<QQ', desc_offs[0], len(descs[0]))
    if len(parts) == 2:
        header[0x38:0x48] = struct.pack('<QQ', desc_offs[1], len(descs[1]))
    header[0x48:0x58] = struct.pack('<QQ', part_offs[0], len(parts[0]))
    if len(parts) == 2:
        header[0x58:0x68] = struct.pack('<QQ', part_offs[1], len(parts[1]))
    header[0x68] = (active & 0xFF) or (1 if active else 0)       # any non-zero byte selects the secondary table
    header[0x6C:0x8C] = sha(table)
    f = bytearray(rng.rbytes(0x10)) + bytes(0xF0) + header
    f += bytes(sec_off - len(f))
    other = rng.rbytes(len(table))
    f += (table if active else other)
    f += bytes(prim_off - len(f))
    f += (other if active else table)
    for po, p in zip(part_offs, parts):
        f += bytes(po - len(f))
        f += p
    toff = sec_off if active else prim_off
    for i, info in enumerate(infos):
        info.update({'kind': 'disa', 'part_off': part_offs[i], 'part_len': len(parts[i]), 'desc_off': toff + desc_offs[i],
                     'header_hash': (0x100 + 0x6C, 0x20), 'table_off': toff, 'table_len': len(table)})
    return bytes(f), infos


# ---------------------------------------------------------------- reference reader (the specification)

def unpack_bits(b):
    out = []
    for i in range(0, len(b) - len(b) % 4, 4):
        v = int.from_bytes(b[i:i + 4], 'little')
        out.extend((v >> (31 - k)) & 1 for k in range(32))
    return out


def ref_view(part, info):
    """the DPFS level-3 view selected by the two-level bitmap tree, from raw partition bytes + the spec geometry"""
    o1, o2, o3, L1, L2, V, d2, d3 = (info[k] for k in ('o1', 'o2', 'o3', 'L1', 'L2', 'V', 'd2', 'd3'))
    l1 = part[o1 + (L1 if info['selector'] else 0):][:L1]
    bits1 = unpack_bits(l1)
    lv2 = bytearray()
    for blk in range(savebuild.ceil_div(L2, d2)):
        n = min(d2, L2 - blk * d2)
        src = o2 + (L2 if bits1[blk] else 0) + blk * d2
        lv2 += part[src:src + n]
    bits2 = unpack_bits(bytes(lv2))
    view = bytearray()
    for blk in range(savebuild.ceil_div(V, d3)):
        n = min(d3, V - blk * d3)
        src = o3 + (V if bits2[blk] else 0) + blk * d3
        view += part[src:src + n]
    return bytes(view), bits2


def ref_levels(part, info):
    view, _ = ref_view(part, info)
    D = len(info['data'])
    lens = [len(l) for l in info['levels']] + [D]
    lv = [view[o:o + n] for o, n in zip(info['ivfc_off'][:3], lens[:3])]
    if info['external']:
        lv.append(part[info['ext_off']:info['ext_off'] + D])
    else:
        lv.append(view[info['ivfc_off'][3]:info['ivfc_off'][3] + D])
    return lv


def ref_master(desc_bytes, info):
    return [desc_bytes[0x10C + i:0x10C + i + 0x20] for i in range(0, info['master_len'], 0x20)]


def ref_chain(levels, info, master):
    """per level-4 block: is the SHA-256 chain up to the master hash intact (None for an all-zero stored hash)"""
    memo = {}
    log2 = info['ivfc_log2']

    def ok(idx, b):
        if (idx, b) in memo:
            return memo[(idx, b)]
        bs = 1 << log2[idx]
        h = sha(levels[idx][b * bs:(b + 1) * bs].ljust(bs, b'\0'))
        if idx == 0:
            r = master[b] == h
        else:
            hp = b * 0x20
            up = ok(idx - 1, hp // (1 << log2[idx - 1]))
            if not up:
                r = up
            else:
                exp = levels[idx - 1][hp:hp + 0x20]
                r = None if exp == ZERO else exp == h
        memo[(idx, b)] = r
        return r

    bs4 = 1 << log2[3]
    return [ok(3, b) for b in range(savebuild.ceil_div(len(levels[3]), bs4))], ok


def ref_content(fbytes, info):
    """what the verified level-4 view must show: stored block where the chain is intact, 0xDD filler elsewhere"""
    part = fbytes[info['part_off']:info['part_off'] + info['part_len']]
    levels = ref_levels(part, info)
    master = ref_master(fbytes[info['desc_off']:info['desc_off'] + info['desc_len']], info)
    chain, _ = ref_chain(levels, info, master)
    bs4 = 1 << info['ivfc_log2'][3]
    out = bytearray()
    for b, okb in enumerate(chain):
        blk = levels[3][b * bs4:(b + 1) * bs4]
        out += blk if okb else b'\xDD' * len(blk)
    return bytes(out), chain, levels


# ---------------------------------------------------------------- the real objects

class ROBytesIO(io.BytesIO):
    def writable(self):
        return False

    def write(self, b):
        raise io.UnsupportedOperation('not writable')


CMAC_SLOTS = {'NOR0': 0x33, 'NOR0n': 0x19, 'SIGN': 0x30, 'SYS0': 0x30, 'EXT0': 0x30, '9DB0': 0x30, '9DB0n': 0x0B}


def gen_cmac(rng, kind):
    """a CMAC scheme description (JSON-able); the SAV0-based schemes only make sense for DISA"""
    names = ['SYS0', 'EXT0', '9DB0', '9DB0n'] + (['NOR0', 'NOR0n', 'SIGN'] if kind == 'disa' else [])
    n = rng.pick(names)
    return {'name': n, 'key': rng.rbytes(16), 'id': rng.rbytes(8), 'quota': rng.getrandbits(1), 'fid': rng.getrandbits(32),
            'did': rng.getrandbits(32), 'db': rng.getrandbits(32)}


def cmac_model(cm):
    """(magic, bytes hashed before the header part, sav0?, key) as the Lean driver takes them"""
    n = cm['name']
    le4 = lambda v: v.to_bytes(4, 'little')
    if n in ('NOR0', 'NOR0n'):
        return {'magic': b'CTR-NOR0', 'pre': b'', 'sav0': True, 'key': cm['key']}
    if n == 'SIGN':
        return {'magic': b'CTR-SIGN', 'pre': cm['id'], 'sav0': True, 'key': cm['key']}
    if n == 'SYS0':
        return {'magic': b'CTR-SYS0', 'pre': cm['id'], 'sav0': False, 'key': cm['key']}
    if n == 'EXT0':
        return {'magic': b'CTR-EXT0', 'pre': cm['id'] + le4(cm['quota']) + le4(cm['fid']) + le4(cm['did']), 'sav0': False,
                'key': cm['key']}
    return {'magic': b'CTR-9DB0', 'pre': le4(cm['db']), 'sav0': False, 'key': cm['key']}


def cmac_real(cm):
    """(cmac_base object, CryptoEngine with the scheme's keyslot set)"""
    from pyctr.crypto import CryptoEngine
    from pyctr.type.save import cmac as C
    n = cm['name']
    if n in ('NOR0', 'NOR0n'):
        base = C.CTR_NOR0(new3ds=(n == 'NOR0n'))
    elif n == 'SIGN':
        base = C.CTR_SIGN(cm['id'])
    elif n == 'SYS0':
        base = C.CTR_SYS0(cm['id'])
    elif n == 'EXT0':
        base = C.CTR_EXT0(cm['id'], bool(cm['quota']), cm['fid'], cm['did'])
    else:
        base = C.CTR_9DB0(cm['db'], n == '9DB0n')
    eng = CryptoEngine()
    eng.set_normal_key(CMAC_SLOTS[n], cm['key'])
    return base, eng


def aes_cmac(key, msg):
    """RFC 4493 written out (independent of Cryptodome.Hash.CMAC)"""
    from Cryptodome.Cipher import AES
    ecb = AES.new(key, AES.MODE_ECB)

    def dbl(b):
        v = int.from_bytes(b, 'big') << 1
        if v >> 128:
            v = (v & ((1 << 128) - 1)) ^ 0x87
        return v.to_bytes(16, 'big')
    k1 = dbl(ecb.encrypt(bytes(16)))
    k2 = dbl(k1)
    n = max(1, (len(msg) + 15) // 16)
    last = msg[16 * (n - 1):]
    if len(last) == 16:
        last = bytes(a ^ b for a, b in zip(last, k1))
    else:
        last = bytes(a ^ b for a, b in zip(last + b'\x80' + bytes(15 - len(last)), k2))
    x = bytes(16)
    for i in range(n - 1):
        x = ecb.encrypt(bytes(a ^ b for a, b in zip(x, msg[16 * i:16 * i + 16])))
    return ecb.encrypt(bytes(a ^ b for a, b in zip(x, last)))


def expected_cmac(cm, header):
    m = cmac_model(cm)
    part = sha(b'CTR-SAV0' + header) if m['sav0'] else header
    return aes_cmac(m['key'], sha(m['magic'] + m['pre'] + part))


class Session:
    """a DISA/DIFF opened over a BytesIO plus one verified level-4 reader per partition"""

    def __init__(self, kind, data, writable, cmac=None):
        self.kind, self.cmac = kind, cmac
        self.bio = io.BytesIO(data) if writable else ROBytesIO(data)
        self.open()

    def open(self):
        from pyctr.type.save.diff import DIFF
        from pyctr.type.save.disa import DISA
        from pyctr.type.save.partdesc.ivfc import IVFCLevel4Reader
        self.bio.seek(0)
        cls = DIFF if self.kind == 'diff' else DISA
        if self.cmac:
            base, eng = cmac_real(self.cmac)
            self.cont = cls(self.bio, cmac_base=base, crypto=eng)
        else:
            self.cont = cls(self.bio)
        self.readers = {i: IVFCLevel4Reader(p.ivfc_hash_tree) for i, p in self.cont.partitions.items()}

    def run(self, op):
        """-> rendered output (same format as the Lean driver)"""
        k = op[0]
        if k == 'read':
            return 'b:' + (self.readers[op[1]].read(op[2]).hex() or '-')
        if k == 'seek':
            return 'n:%d' % self.readers[op[1]].seek(op[2], op[3])
        if k == 'write':
            return 'n:%d' % self.readers[op[1]].write(op[2])
        if k == 'blk':
            d, v = self.cont.partitions[op[1]].ivfc_hash_tree.get_block(op[2], op[3], verify=bool(op[4]), deep_verify=bool(op[5]))
            return 'k:' + (d.hex() or '-') + '/' + {None: 'N', True: 'T', False: 'F'}[v]
        if k == 'dp':
            f = self.cont.partitions[op[1]].dpfs_lv3_file
            f.seek(op[2])
            return 'b:' + (f.read(op[3]).hex() or '-')
        if k == 'dpw':
            f = self.cont.partitions[op[1]].dpfs_lv3_file
            f.seek(op[2])
            return 'n:%d' % f.write(op[3])
        if k == 'reopen':
            data = self.bio.getvalue()
            self.bio = io.BytesIO(data) if op[1] else ROBytesIO(data)
            self.open()
            return 'ok'
        if k == 'fault':
            buf = self.bio.getbuffer()
            if op[1] < len(buf):
                buf[op[1]] = op[2]
            del buf
            return 'ok'
        raise ValueError(k)


BENIGN = ('ValueError', 'IVFCReadOnlyError', 'DPFSReadOnlyError')


def op_sexp(op):
    if op[0] == 'write':
        return ['write', op[1], op[2]]
    if op[0] == 'dpw':
        return ['dpw', op[1], op[2], op[3]]
    return list(op)


def part_summary(cont):
    out = []
    for i, p in sorted(cont.partitions.items()):
        # noinspection PyProtectedMember
        out.append(f'p{i}:{p._fp._offset}:{p._fp._size}:{p.ivfc.lv4.size}:{len(p.master_hashes)}:'
                   f'{len(p.dpfs_lv3_file._lv3.lv2.u32_list)}')
    return ','.join(out)


def run_real(kind, data, writable, ops, cmac=None):
    """-> (rendered line like the driver's, session or None, per-op outputs)"""
    try:
        s = Session(kind, data, writable, cmac)
    except Exception as e:
        return 'e:' + exc_name(e), None, []
    outs = []
    head = part_summary(s.cont)
    for op in ops:
        try:
            outs.append(s.run(op))
        except Exception as e:
            n = exc_name(e)
            outs.append('e:' + n)
            if n not in BENIGN:
                break
    return 'ok ' + head + ' ' + ' '.join(outs) + ' | ' + (s.bio.getvalue().hex() or '-'), s, outs


def run_model(drv, kind, data, writable, ops, cmac=None):
    if cmac is not None:
        cmac = cmac_model(cmac)
    cm = '-' if cmac is None else [cmac['magic'], cmac['pre'], int(cmac['sav0']), cmac['key']]
    return drv.ask(sexp(['save-run', kind, data, int(writable), cm, [op_sexp(o) for o in ops]]))
