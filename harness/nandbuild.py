"""Independent NAND image builder (3dbrew: NCSD header, partition crypto table, OTP key derivation, CTR / TWL counters)."""
import hashlib
import struct

from Cryptodome.Cipher import AES

M = (1 << 128) - 1
C3DS = 0x1FF9E9AAC5FE0408024591DC5D52768A
CTWL = 0xFFFEFB4E295902582A680F5F1A4F3E79
TWL_KEYY = 0xE1A00005202DDD1DBD4DC4D30AB9DC76
TWL_KEYY_DEV = 0xE1A00005266A649766E8B87AF176BFAA
CTRNEW_KEYY = 0x4D804F4E9990194613A204AC584460BE
OTP_MAGIC = b'\x0f\xb0\xad\xde'
SLOT = {'twl': 3, 'ctr_old': 4, 'ctr_new': 5, 'firm': 6, 'agb': 7}


def rotl(v, r):
    v &= M
    return ((v << r) | (v >> (128 - r))) & M


def scr3ds(x, y):
    return rotl(((rotl(x, 2) ^ y) + C3DS) & M, 87).to_bytes(16, 'big')


def scrtwl(x, y):
    return rotl(((x ^ y) + CTWL) & M, 42).to_bytes(16, 'big')


def make_otp(rng, encrypted, okey, oiv):
    body = OTP_MAGIC + rng.rbytes(0xE0 - 4)
    dec = body + hashlib.sha256(body).digest()
    enc = AES.new(okey, AES.MODE_CBC, oiv).encrypt(dec)
    return (enc if encrypted else dec), dec, enc


def console_keys(dec, enc, blob, dev):
    """normal keys of the NAND keyslots, derived from the OTP and the bootROM key area"""
    keygen = blob[:0x200]
    cxy = hashlib.sha256(dec[0x90:0xAC] + keygen[:0x24]).digest()
    k3f = scr3ds(int.from_bytes(cxy[:16], 'big'), int.from_bytes(cxy[16:], 'big'))
    a = AES.new(k3f, AES.MODE_CBC, keygen[36:52]).encrypt(keygen[52:116])
    x_ctr = int.from_bytes(a[:16], 'big')                       # KeyX of slots 4-7
    keyy = lambda slot: int.from_bytes(blob[0x1F0 + 16 * (slot - 4):0x200 + 16 * (slot - 4)], 'big')
    keys = {4: scr3ds(x_ctr, keyy(4)), 5: scr3ds(x_ctr, CTRNEW_KEYY), 6: scr3ds(x_ctr, keyy(6)), 7: scr3ds(x_ctr, keyy(7))}
    src = enc[0:8] if dev else dec[8:16]
    lo, hi = struct.unpack('<II', src)
    if dev:
        x_twl = struct.pack('<I', lo) + bytes.fromhex('1e4b7aee8bc042af') + struct.pack('<I', hi)
    else:
        x_twl = struct.pack('<I', (lo ^ 0xB358A6AF) | 0x80000000) + b'NINTENDO' + struct.pack('<I', hi ^ 0x08C267B7)
    keys[3] = scrtwl(int.from_bytes(x_twl, 'little'), TWL_KEYY_DEV if dev else TWL_KEYY)
    return keys


def ctr_xor(key, counter, offset, data, twl):
    """encrypt/decrypt `data` located at image offset `offset` (ECB only)"""
    ecb = AES.new(key, AES.MODE_ECB)
    out = bytearray()
    first = offset // 16
    pre = offset % 16
    n = (pre + len(data) + 15) // 16
    ks = bytearray()
    for j in range(n):
        blk = ecb.encrypt(((counter + first + j) & M).to_bytes(16, 'big'))
        ks += blk[::-1] if twl else blk
    return bytes(a ^ b for a, b in zip(data, ks[pre:]))


def counters(cid):
    return (int.from_bytes(hashlib.sha256(cid).digest()[:16], 'big'), int.from_bytes(hashlib.sha1(cid).digest()[:16], 'little'))


def mbr(parts, magic=b'\x55\xAA', filler=b''):
    """0x200-byte sector with a partition table for `parts` = [(offset_sectors, size_sectors)]"""
    sec = bytearray(0x200)
    if filler:
        sec[:len(filler)] = filler
    for i, (o, n) in enumerate(parts[:4]):
        e = bytearray(16)
        e[8:12] = struct.pack('<I', o)
        e[12:16] = struct.pack('<I', n)
        sec[0x1BE + 16 * i:0x1CE + 16 * i] = e
    sec[0x1FE:0x200] = magic
    return bytes(sec)


TWL_STD_1C0 = (0x18000601A03F97000000A97D04000004).to_bytes(16, 'big')
TWL_STD_1D0 = b'\x8e@\x06\x01\xa0\xc3\x8d\x80\x04\x00\xb3\x05\x01\x00\x00\x00'


def build(desc, blob, okey, oiv):
    """desc: {'parts': [{'fs','crypt','offset_mu','size_mu','plain'}...] (index = table slot, None = empty),
              'cid', 'dev', 'image_mu', 'otp_dec','otp_enc', 'essential': None | {'otp':bool,'cid':bool}, 'sig','unknown','twl_mbr_enc'}
    -> image bytes"""
    keys = console_keys(desc['otp_dec'], desc['otp_enc'], blob, desc['dev'])
    c_ctr, c_twl = counters(desc['cid'])
    fs = bytearray(8)
    cr = bytearray(8)
    table = bytearray(0x40)
    end = 0x400
    for i, p in enumerate(desc['parts']):
        if p is None:
            continue
        fs[i] = p['fs']
        cr[i] = p['crypt']
        table[8 * i:8 * i + 8] = struct.pack('<II', p['offset_mu'], p['size_mu'])
        end = max(end, (p['offset_mu'] + p['size_mu']) * 0x200)
    header = desc['sig'] + b'NCSD' + struct.pack('<IQ', desc['image_mu'], 0) + bytes(fs) + bytes(cr) + bytes(table) + \
        desc['unknown'] + desc['twl_mbr_enc']
    assert len(header) == 0x200
    img = bytearray(end + desc.get('tail', 0))
    img[:0x200] = header
    ess = desc.get('essential')
    if ess:
        files = []
        if ess.get('otp'):
            files.append((b'otp', desc['otp_enc'] if ess.get('otp_enc') else desc['otp_dec']))
        if ess.get('cid'):
            files.append((b'nand_cid', desc['cid']))
        files.append((b'hwcal0', b'\x11' * 0x20))
        eh = bytearray(0x200)
        off = 0
        blobs = b''
        for j, (name, data) in enumerate(files):
            eh[16 * j:16 * j + 16] = name.ljust(8, b'\0') + struct.pack('<II', off, len(data))
            eh[0x1E0 - 0x20 * j:0x200 - 0x20 * j] = hashlib.sha256(data).digest()
            pad = (-len(data)) % 0x200
            blobs += data + bytes(pad)
            off += len(data) + pad
        img[0x200:0x400] = eh
        img[0x400:0x400 + len(blobs)] = blobs
    kind = {}
    for i, p in enumerate(desc['parts']):
        if p is None:
            continue
        o = p['offset_mu'] * 0x200
        plain = p['plain']
        k = part_kind(p)
        kind[i] = k
        if k is None:
            img[o:o + len(plain)] = plain
        else:
            img[o:o + len(plain)] = ctr_xor(keys[SLOT[k]], c_twl if k == 'twl' else c_ctr, o, plain, k == 'twl')
    return bytes(img), keys, (c_ctr, c_twl), kind


def part_kind(p):
    if p['fs'] == 1:
        return {1: 'twl', 2: 'ctr_old', 3: 'ctr_new'}.get(p['crypt'])
    if p['fs'] == 3:
        return 'firm'
    if p['fs'] == 4:
        return 'agb'
    return None
