"""Shared run/monitor/shrink logic for all checks whose cases are (file-object stack, op history)."""
from common import sexp
import filestack
from common import exc_name
from filestack import (abs_window, build_real, clamps, is_fixed, is_readonly, node_sexp, run_real, view_content,
                       well_formed)
from framework import CaseResult, Check
from reffile import RefFile


def top_kind(node):
    return node[0] if node[0] != 'cw' else 'cw-' + top_kind(node[1])


def chain(node):
    """kinds from top to bottom along the first child"""
    k = node[0]
    if k in ('bio', 'opf'):
        return k
    if k == 'merge':
        return 'merge'
    if k == 'cw':
        return 'cw/' + chain(node[1])
    return k + '/' + chain(node[3])


def gen_ops(rng, ln, writes=True, queries=True):
    ops = []
    for _ in range(rng.randint(1, 12)):
        r = rng.random()
        if r < 0.35:
            ops.append(['r', rng.pick([-1, -2, -3, 0, 1, 2, 15, 16, 17, ln, ln + 5, rng.randint(-3, ln + 5)])])
        elif r < 0.55 and writes:
            ops.append(['w', rng.rbytes(rng.pick([0, 1, 2, 3, 15, 16, 17, ln, ln + 5, rng.randint(0, ln + 5)]))])
        elif r < 0.90:
            wh = rng.pick([0, 0, 1, 1, 2, 2, 0, 1, 2, 3])
            ops.append(['s', rng.pick([0, 1, -1, ln, ln + 1, -ln, -ln - 1, 16, 17, ln + 16, ln + 33,
                                       rng.randint(-ln - 3, ln + 6)]), wh])
        elif r < 0.96 or not queries:
            ops.append(['t'])
        else:
            ops.append(['q', rng.pick(['readable', 'writable', 'seekable'])])
    return ops


def add_owner_moves(rng, ops, ln):
    """the file object under a CTR wrapper is moved by its owner (another wrapper on it, the caller) and the wrapper then SEEKS
    before its next call - the discipline under which sharing a file object works with the real code: after its own seek the
    wrapper's view is what it would have been anyway"""
    for _ in range(rng.randint(1, 3)):
        i = rng.randint(0, len(ops))
        mover = ['is', rng.pick([0, 16, 32, ln, rng.randint(0, ln + 20)])]
        seek = ['s', rng.pick([0, 1, 16, 17, ln, rng.randint(0, ln + 6)]), 0] if rng.chance(0.7) else \
            ['s', rng.pick([0, -1, -16, -ln]), 2]
        if rng.chance(0.4):
            # ... landing exactly where the owner left the file, or where the wrapper stood before
            seek = ['s', mover[1], 0]
        ops[i:i] = [mover, seek]
    return ops


class StackCheck(Check):
    """cases: {'node': stack description, 'ops': [...]}"""

    gap_key = 'ctrio.write-past-eof-gap'

    def run_case(self, case, drv):
        node, ops = case['node'], [tuple(o) for o in case['ops']]
        leaves = []
        f = build_real(node, leaves)
        wf, _ = well_formed(node)
        fixed = is_fixed(node)
        win = abs_window(node) if len(leaves) == 1 else None
        readonly = is_readonly(node)
        mon, key = [], None
        ref = RefFile(view_content(node, [l.getvalue() for l in leaves]), fixed, clamp=clamps(node)) if wf else None
        outs = []
        nontrivial = False
        plain_chain = all(k in ('sub', 'cw', 'bio') for k in chain(node).split('/'))
        info = {'stack:' + chain(node): 1, 'wf:%s' % wf: 1}
        for op in ops:
            before = [l.getvalue() for l in leaves]
            pos_before = ref.pos if ref is not None else 0
            for l in leaves:
                if hasattr(l, 'log'):
                    l.log.clear()
            pos_real = None
            if op[0] == 'w' and plain_chain:
                try:
                    pos_real = f.tell()
                except Exception:  # noqa
                    pass
            if op[0] == 'is':
                # the file object the wrapper was given is moved by its owner (another wrapper on it, the caller): for a wrapper
                # whose position IS the inner file's position (CBCFileIO) this is just another way of seeking
                try:
                    out = 'n:%d' % filestack.last_inner.seek(op[1])
                except Exception as e:  # noqa
                    out = 'e:' + exc_name(e)
                op = ('s', op[1], 0)
            else:
                out = run_real(f, [op])[0]
            outs.append(out)
            after = [l.getvalue() for l in leaves]
            info['op:' + op[0]] = info.get('op:' + op[0], 0) + 1
            if out not in ('b:-', 'n:0'):
                nontrivial = True
            errs = []
            # frame: nothing outside the window changes, whatever the arguments
            if win and win[1] is not None:
                lo, hi = win
                b0 = before[0].ljust(len(after[0]), b'\0')   # bytes that did not exist read as zero-fill
                if b0[:lo] != after[0][:lo] or b0[hi:] != after[0][hi:]:
                    errs.append(f'{op}: bytes outside window [{lo},{hi}) changed')
                for kind, a, b in leaves[0].log:
                    if b > a and (a < lo or b > hi):
                        errs.append(f'{op}: base access [{a},{b}) outside window [{lo},{hi})')
            if op[0] == 'r' and op[1] >= 0 and out.startswith('b:') and len(out) - 2 > 2 * op[1] and out != 'b:-':
                errs.append(f'{op}: returned more than requested')
            # "a write reports how many bytes it stored": whatever the shape of the stack (windows overhanging what they are windows
            # of included), the bytes reported as stored are in the base file, at the place the position stood for
            if op[0] == 'w' and plain_chain and pos_real is not None and out.startswith('n:') and int(out[2:]) > 0 and win:
                n_rep = int(out[2:])
                at = win[0] + pos_real
                if n_rep > len(op[1]) or after[0][at:at + n_rep] != op[1][:n_rep]:
                    errs.append(f'{op[0]} of {len(op[1])} bytes at {pos_real}: reported {n_rep} bytes stored, but they are not in the base file at {at}')
            if op[0] == 'q':
                if not out.startswith('q:'):
                    errs.append(f'{op}: {out} (must answer without error)')
            elif ref is not None and not (op[0] == 's' and op[2] not in (0, 1, 2)):
                try:
                    if op[0] == 'r':
                        exp = 'b:' + (ref.read(op[1]).hex() or '-')
                    elif op[0] == 'w':
                        if readonly:
                            exp = None
                            if before != after:
                                errs.append(f'{op}: read-only view changed the base')
                        else:
                            exp = 'n:%d' % ref.write(op[1])
                    elif op[0] == 's':
                        exp = 'n:%d' % ref.seek(op[1], op[2])
                    else:
                        exp = 'n:%d' % ref.pos
                except ValueError:
                    exp = 'e:ValueError'
                if exp is not None and exp != out:
                    errs.append(f'{op}: got {out} expected {exp}')
                if not readonly and view_content(node, after) != bytes(ref.content):
                    errs.append(f'{op}: view content differs from the ordinary-file result')
            if errs and not mon:
                mon = errs
                key = f'{chain(node)}.{op[0]}'
                if (op[0] == 'w' and len(op[1]) > 0 and not fixed and ('ctr' in chain(node) or 'twl' in chain(node))
                        and pos_before > len(before[0])):
                    key = self.gap_key
                break
        qless = [o for o, op in zip(outs, ops) if op[0] != 'q']
        if any(op[0] == 'is' for op in ops):
            info['inner-file moved between calls'] = 1
        real = ' '.join(qless) + ' | ' + ' '.join((l.getvalue().hex() or '-') for l in leaves)
        model = drv.ask(('fileops', node_sexp(node), tuple((('s', o[1], 0) if o[0] == 'is' else o) for o in ops[:len(outs)] if o[0] != 'q')))
        return CaseResult(real, model, mon, sig=real if nontrivial else '', key=key, info=info)

    def shrink(self, case):
        ops = case['ops']
        ctr = 'ctr' in chain(case['node']) or 'twl' in chain(case['node'])
        for i in range(len(ops)):
            cand = ops[:i] + ops[i + 1:]
            if ctr and any(o[0] == 'is' and (j + 1 >= len(cand) or cand[j + 1][0] != 's') for j, o in enumerate(cand)):
                continue        # an owner's move must stay followed by the wrapper's own seek (see add_owner_moves)
            yield {'node': case['node'], 'ops': cand}
        if case['node'][0] in ('cw',):
            yield {'node': case['node'][1], 'ops': ops}
        for i, op in enumerate(ops):
            if op[0] == 'w' and len(op[1]) > 1:
                yield {'node': case['node'], 'ops': ops[:i] + [['w', op[1][:len(op[1]) // 2]]] + ops[i + 1:]}

    def neighbours(self, case, rng):
        node = case['node']
        _, ln = well_formed(node)
        small = ([['r', n] for n in (-3, -2, -1, 0, 1, 2, ln, ln + 1)] + [['w', rng.rbytes(k)] for k in (0, 1, ln, ln + 2)] +
                 [['s', o, w] for w in (0, 1, 2) for o in (-ln - 1, -1, 0, 1, ln, ln + 2)] + [['t']])
        for a in small:
            for b in small:
                yield {'node': node, 'ops': [a, b, ['r', -1]]}
        for _ in range(300):
            yield {'node': node, 'ops': gen_ops(rng, ln)}


