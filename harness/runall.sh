#!/bin/bash
# usage: harness/runall.sh "1 2 3" [tier]   -- runs every claimed check for the given seeds, prints non-passing ones
cd "$(dirname "$0")/.."
seeds="${1:-1 2 3}"; tier="${2:-quick}"
props=$(/venv/bin/python -c "import json; print(' '.join(c['property_id'] for c in json.load(open('MANIFEST.json'))['checks']))")
fail=0
for s in $seeds; do for p in $props; do
  out=$(VERIF_SEED=$s timeout 7200 ./check $p --tier $tier 2>&1); rc=$?
  if [ $rc -ne 0 ]; then echo "seed=$s $p rc=$rc :: $(echo "$out" | grep -v KNOWN | tail -2 | tr '\n' ' ')"; fail=1; fi
done; done
echo "runall done fail=$fail"
