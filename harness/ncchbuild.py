"""Independent NCCH builder and key derivation (3dbrew), used as the specification for C03/C04/C05/C10.

Nothing here imports pyctr: keys come from the documented scrambler, encryption is AES-ECB keystream xor.
"""
import hashlib
import struct

import envsetup
from corr_c08 import scr
from filestack import ctr_xor

MU = 0x200
BASE_KEY_X = {0x18: 0x82E9C9BEBFB8BDB875ECC0A07D474374, 0x1B: 0x45AD04953992C7C893724A9A7BCE6182,
              0x25: 0xCEE7D8AB30C00DAE850EF5E382AC5AF3}
BASE_KEY_X_DEV = {0x18: 0x304BF1468372EE64115EBD4093D84276, 0x1B: 0x6C8B2944A0726035F941DFC018524FB6,
                  0x25: 0x81907A4B6F1B47323A677974CE4AD71B}
EXTRA_SLOT = {0x00: 0x2C, 0x01: 0x25, 0x0A: 0x18, 0x0B: 0x1B}
FIXED_SYSTEM_KEY = bytes.fromhex('527CE630A9CA305F3696F3CDE954194B')
SEC = {'extheader': 1, 'exefs': 2, 'romfs': 3}


def key_x(slot, dev=False, seed=b'verif'):
    """KeyX of a slot: 0x2C-0x2F come from the (fake) bootROM key area, the NCCH extra slots are constants"""
    if slot == 0x2C:
        blob = envsetup.keyblob(seed + (b'/dev' if dev else b'/retail'))
        return int.from_bytes(blob[0x170:0x180], 'big')
    return (BASE_KEY_X_DEV if dev else BASE_KEY_X)[slot]


def ncch_keys(desc, dev=False):
    """(primary normal key, secondary normal key) for an NCCH description"""
    ky = int.from_bytes(desc['key_y'], 'big')
    if desc['fixed_key']:
        k = FIXED_SYSTEM_KEY if desc['program_id'] & (0x10 << 32) else b'\0' * 16
        return k, k
    prim = scr(0x2C, key_x(0x2C, dev), ky)
    ky2 = ky
    if desc['seed'] is not None:
        ky2 = int.from_bytes(hashlib.sha256(desc['key_y'] + desc['seed']).digest()[:16], 'big')
    sec = scr(0x2C, key_x(EXTRA_SLOT[desc['crypto_method']], dev), ky2)
    return prim, sec


def build_exefs_plain(files, rng=None):
    """files: [(name, bytes)]; returns (plain exefs bytes, [(name, offset, size)])"""
    hdr = bytearray(0x200)
    data = bytearray()
    lay = []
    for i, (name, content) in enumerate(files):
        off = len(data)
        hdr[16 * i:16 * i + 8] = name.encode('ascii').ljust(8, b'\0')
        hdr[16 * i + 8:16 * i + 12] = off.to_bytes(4, 'little')
        hdr[16 * i + 12:16 * i + 16] = len(content).to_bytes(4, 'little')
        hdr[0x1E0 - 0x20 * i:0x200 - 0x20 * i] = hashlib.sha256(content).digest()
        data += content
        pad = -len(data) % 0x200
        data += (rng.rbytes(pad) if rng else b'\0' * pad)
        lay.append((name, off, len(content)))
    return bytes(hdr) + bytes(data), lay


def build(desc, dev=False):
    """desc keys: key_y(16) program_id partition_id crypto_method fixed_key no_crypto seed(16|None) product(str)
       extheader(0x800|None) logo plain exefs_files[(name,bytes)]|None romfs(bytes|None) gap_units flags_no_romfs
       returns (image bytes, layout info with plaintext of every section)"""
    prim, sec = ncch_keys(desc, dev)
    pid = desc['partition_id']
    out = bytearray(0x200)
    units = 1
    plain = {}
    lay = {}

    def place(name, data):
        nonlocal units
        if desc.get('gaps') and desc['gaps'].get(name):
            out.extend(b'\xCC' * (desc['gaps'][name] * MU))
            units += desc['gaps'][name]
        start = units
        n = (len(data) + MU - 1) // MU
        padded = data.ljust(n * MU, b'\0')
        lay[name] = (start, n)
        plain[name] = padded
        out.extend(padded)
        units += n
        return start, n

    def enc(name, data, key):
        if desc['no_crypto']:
            return data
        return ctr_xor(key, (pid << 64) | (SEC[name] << 56), data, False)

    if desc['extheader'] is not None:
        s, n = place('extheader', desc['extheader'])
        out[s * MU:(s + n) * MU] = enc('extheader', plain['extheader'], prim)
    if desc['logo'] is not None:
        place('logo', desc['logo'])
    if desc['plain'] is not None:
        place('plain', desc['plain'])
    exefs_lay = None
    if desc['exefs_files'] is not None:
        ex_plain, exefs_lay = build_exefs_plain(desc['exefs_files'], desc.get('rng'))
        s, n = place('exefs', ex_plain)
        region = plain['exefs']
        if desc['no_crypto']:
            encd = region
        else:
            iv = (pid << 64) | (2 << 56)
            with_prim = ctr_xor(prim, iv, region, False)
            with_sec = ctr_xor(sec, iv, region, False)
            encd = bytearray(with_prim)
            for name, off, size in exefs_lay:
                if name not in ('icon', 'banner'):
                    encd[0x200 + off:0x200 + off + size] = with_sec[0x200 + off:0x200 + off + size]
            encd = bytes(encd)
        out[s * MU:(s + n) * MU] = encd
    if desc['romfs'] is not None:
        s, n = place('romfs', desc['romfs'])
        out[s * MU:(s + n) * MU] = enc('romfs', plain['romfs'], sec)
    if desc.get('tail_gap'):
        out.extend(b'\xCD' * (desc['tail_gap'] * MU))
        units += desc['tail_gap']
    # header
    h = bytearray(0x200)
    h[0:0x10] = desc['key_y']
    h[0x10:0x100] = desc.get('sig_rest', b'\x5A' * 0xF0)
    h[0x100:0x104] = b'NCCH'
    h[0x104:0x108] = units.to_bytes(4, 'little')
    h[0x108:0x110] = pid.to_bytes(8, 'little')
    h[0x110:0x112] = b'00'
    h[0x112:0x114] = (2).to_bytes(2, 'little')
    if desc['seed'] is not None:
        h[0x114:0x118] = hashlib.sha256(desc['seed'] + desc['program_id'].to_bytes(8, 'little')).digest()[:4]
    h[0x118:0x120] = desc['program_id'].to_bytes(8, 'little')
    h[0x150:0x160] = desc.get('product', 'CTR-P-VRIF').encode('ascii').ljust(16, b'\0')
    if desc['extheader'] is not None:
        h[0x180:0x184] = (0x400).to_bytes(4, 'little')
    flags = bytearray(8)
    flags[3] = desc['crypto_method']
    flags[4] = 1
    flags[5] = 0x3 if desc['extheader'] is not None else 0x1
    flags[7] = (1 if desc['fixed_key'] else 0) | (2 if desc.get('no_romfs_flag') else 0) | (4 if desc['no_crypto'] else 0) | \
               (0x20 if desc['seed'] is not None else 0)
    if desc.get('flags_override') is not None:
        flags[7] = desc['flags_override']
    h[0x188:0x190] = flags
    for name, o in (('plain', 0x190), ('logo', 0x198), ('exefs', 0x1A0), ('romfs', 0x1B0)):
        if name in lay:
            h[o:o + 4] = lay[name][0].to_bytes(4, 'little')
            h[o + 4:o + 8] = lay[name][1].to_bytes(4, 'little')
    out[0:0x200] = h
    info = {'lay': lay, 'plain': plain, 'units': units, 'exefs_lay': exefs_lay, 'prim': prim, 'sec': sec}
    return bytes(out), info


def decrypted_image(img, info, desc):
    """the specification of the fully-decrypted view: every encrypted section replaced by its plaintext, crypto
    flags rewritten (byte 0x18B := 0, byte 0x18F := 4), everything else unchanged"""
    out = bytearray(img)
    for name in ('extheader', 'exefs', 'romfs'):
        if name in info['lay']:
            s, n = info['lay'][name]
            out[s * MU:(s + n) * MU] = info['plain'][name]
    out[0x18B] = 0
    out[0x18F] = 4
    return bytes(out)
