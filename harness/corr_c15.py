"""C15 — handles onto one file work from different threads as if used one after another."""
import threading

import closefix as cf
import envsetup
import threadlog as tl
from common import Rng, exc_name, sexp
from framework import CaseResult, Check

_FIX = {}


def fixture(kind):
    if kind not in _FIX:
        envsetup.install()
        if kind == 'windows':
            _FIX[kind] = bytes(range(256)) * 8
        elif kind == 'romfs':
            _FIX[kind] = cf.romfs_bytes()
        elif kind == 'exefs':
            _FIX[kind] = cf.exefs_bytes()
        elif kind == 'exefs-plaincode':
            # '.code' that is not compressed (zero LZSS footer): '.code-decompressed' then aliases the stored file
            import ncchbuild
            _FIX[kind] = ncchbuild.build_exefs_plain([('.code', bytes(range(200)) * 3 + bytes(8)), ('banner', b'\x22' * 0x230),
                                                      ('icon', b'\x33' * 0x40)])[0]
        elif kind == 'ncch-plain':
            _FIX[kind] = cf.ncch_bytes(False)
        elif kind == 'ncch-split':
            _FIX[kind] = cf.ncch_bytes(True)
        elif kind == 'cia':
            _FIX[kind] = cf.cia_bytes(True)
        elif kind == 'cci':
            _FIX[kind] = cf.cci_bytes()
        elif kind == 'nand':
            _FIX[kind] = cf.nand_bytes()
        elif kind == 'disa':
            _FIX[kind] = cf.disa_bytes()
    return _FIX[kind]


def make_reader(kind):
    """-> (base file object, {handle name: factory})"""
    tl.install()
    fx = fixture(kind)
    with tl.patched_threading():
        return _make_reader(kind, fx)


def _make_reader(kind, fx):
    from pyctr.fileio import SubsectionIO
    if kind == 'windows':
        base = tl.LogBytesIO(fx)
        return base, None, {'w1': lambda: SubsectionIO(base, 0x100, 0x300), 'w2': lambda: SubsectionIO(base, 0x200, 0x400),
                            'w3': lambda: SubsectionIO(base, 0x600, 0x100)}
    if kind == 'romfs':
        from pyctr.type.romfs import RomFSReader
        base = tl.LogBytesIO(fx)
        r = RomFSReader(base)
        return base, r, {'a': lambda: r.openbin('/a.txt'), 'c': lambda: r.openbin('/c.bin'), 'b': lambda: r.openbin('/sub/b.bin')}
    if kind == 'exefs':
        from pyctr.type.exefs import ExeFSReader
        base = tl.LogBytesIO(fx)
        r = ExeFSReader(base)
        return base, r, {'banner': lambda: r.open('banner'), 'code': lambda: r.open('.code')}
    if kind == 'exefs-plaincode':
        from pyctr.type.exefs import ExeFSReader
        base = tl.LogBytesIO(fx)
        r = ExeFSReader(base)
        r.decompress_code()
        return base, r, {'banner': lambda: r.open('banner'), 'code': lambda: r.open('.code'), 'icon': lambda: r.open('icon'),
                         'code-dec': lambda: r.open('.code-decompressed')}
    if kind.startswith('ncch'):
        from pyctr.type.ncch import NCCHReader, NCCHSection
        base = tl.LogBytesIO(fx)
        r = NCCHReader(base)
        return base, r, {'raw-exefs': lambda: r.open_raw_section(NCCHSection.ExeFS), 'raw-romfs': lambda: r.open_raw_section(NCCHSection.RomFS),
                         'raw-exh': lambda: r.open_raw_section(NCCHSection.ExtendedHeader),
                         'full': lambda: r.open_raw_section(NCCHSection.FullDecrypted), 'exefs.banner': lambda: r.exefs.open('banner'),
                         'exefs.code': lambda: r.exefs.open('.code'), 'romfs.a': lambda: r.romfs.openbin('/a.txt')}
    if kind == 'cia':
        from pyctr.type.cia import CIAReader, CIASection
        from pyctr.type.ncch import NCCHSection
        base = tl.LogBytesIO(fx)
        r = CIAReader(base)
        return base, r, {'raw-tmd': lambda: r.open_raw_section(CIASection.TitleMetadata), 'raw-0': lambda: r.open_raw_section(0),
                         'c0.raw-exefs': lambda: r.contents[0].open_raw_section(NCCHSection.ExeFS),
                         'c0.exefs.banner': lambda: r.contents[0].exefs.open('banner'),
                         'c0.romfs.a': lambda: r.contents[0].romfs.openbin('/a.txt')}
    if kind == 'cci':
        from pyctr.type.cci import CCIReader, CCISection
        base = tl.LogBytesIO(fx)
        r = CCIReader(base)
        c0 = r.contents[CCISection.Application]
        return base, r, {'raw-0': lambda: r.open_raw_section(CCISection.Application), 'c0.exefs.banner': lambda: c0.exefs.open('banner'),
                         'c0.romfs.a': lambda: c0.romfs.openbin('/a.txt')}
    if kind == 'nand':
        from pyctr.type.nand import NAND
        base = tl.LogBytesIO(fx[0])
        r = NAND(base, otp=fx[1], cid=fx[2])
        return base, r, {'twl': lambda: r.open_raw_section(0), 'agb': lambda: r.open_raw_section(1), 'firm0': lambda: r.open_raw_section(2),
                         'firm1': lambda: r.open_raw_section(3), 'ctr': lambda: r.open_raw_section(4), 'ctr-0': lambda: r.open_ctr_partition(0),
                         'twl-0': lambda: r.open_twl_partition(0), 'hdr': lambda: r.open_raw_section(-3)}
    if kind == 'disa':
        from pyctr.type.save.disa import DISA
        from pyctr.type.save.partdesc.ivfc import IVFCLevel4Reader
        base = tl.LogBytesIO(fx)
        r = DISA(base)
        return base, r, {'p0.lv4': lambda: IVFCLevel4Reader(r.partitions[0].ivfc_hash_tree),
                         'p1.lv4': lambda: IVFCLevel4Reader(r.partitions[1].ivfc_hash_tree),
                         'p0.lv4b': lambda: IVFCLevel4Reader(r.partitions[0].ivfc_hash_tree)}
    raise KeyError(kind)


HANDLES = {'windows': ['w1', 'w2', 'w3'], 'romfs': ['a', 'c', 'b'], 'exefs': ['banner', 'code'],
           'exefs-plaincode': ['banner', 'code', 'icon', 'code-dec'],
           'ncch-plain': ['raw-exefs', 'raw-romfs', 'raw-exh', 'full', 'exefs.banner', 'exefs.code', 'romfs.a'],
           'ncch-split': ['raw-exefs', 'raw-romfs', 'raw-exh', 'full', 'exefs.banner', 'exefs.code', 'romfs.a'],
           'cia': ['raw-tmd', 'raw-0', 'c0.raw-exefs', 'c0.exefs.banner', 'c0.romfs.a'],
           'cci': ['raw-0', 'c0.exefs.banner', 'c0.romfs.a'],
           'nand': ['twl', 'agb', 'firm0', 'firm1', 'ctr', 'ctr-0', 'twl-0', 'hdr'],
           'disa': ['p0.lv4', 'p1.lv4', 'p0.lv4b']}
WRITABLE = {'windows', 'nand'}


def do_op(h, op):
    """op = ['r', off, n] | ['w', off, bytes]"""
    h.seek(op[1])
    if op[0] == 'r':
        return h.read(op[2])
    return h.write(op[2])


def open_handles(fac, names, pre):
    """open the handles in order; before handle i (i > 0) optionally open another handle and close it / drop it unclosed:
    handles come and go while others stay in use, and the sharing discipline has to survive that"""
    import gc
    hs = []
    with tl.patched_threading():
        return _open_handles(fac, names, pre, hs, gc)


def _open_handles(fac, names, pre, hs, gc):
    for i, n in enumerate(names):
        p = pre[i - 1] if (pre and 0 < i <= len(pre)) else None
        if p:
            t = fac[p[0]]()
            if p[1] == 'close':
                t.close()
            del t
            gc.collect()
        hs.append(fac[n]())
    return hs


def run_serial(kind, names, ops, order, pre=None):
    base, r, fac = make_reader(kind)
    hs = open_handles(fac, names, pre)
    out = [None] * len(names)
    for i in order:
        try:
            out[i] = do_op(hs[i], ops[i])
        except Exception as e:      # noqa
            out[i] = 'e:' + exc_name(e)
    return out, base.getvalue()


def record(kind, names, ops, pre=None):
    """one trace per handle operation, each run alone in its own (named) thread"""
    base, r, fac = make_reader(kind)
    hs = open_handles(fac, names, pre)
    tl.REC.reset()
    tl.REC.mode = 'record'
    try:
        for i, h in enumerate(hs):
            th = threading.Thread(target=lambda h=h, i=i: do_op(h, ops[i]), name=f'T{i}')
            th.start()
            th.join()
    finally:
        tl.REC.mode = 'off'
    traces = [[e for e in tl.REC.events if e[0] == f'T{i}'] for i in range(len(hs))]
    return traces


def replay(kind, names, ops, order, pre=None):
    """real threads, released one event at a time in `order` (a list of thread indexes)"""
    base, r, fac = make_reader(kind)
    hs = open_handles(fac, names, pre)
    out = [None] * len(names)
    gate = tl.Gate([f'T{i}' for i in order])
    tl.REC.reset()
    tl.REC.gate = gate
    tl.REC.mode = 'replay'

    def body(i):
        try:
            out[i] = do_op(hs[i], ops[i])
        except Exception as e:      # noqa
            out[i] = 'e:' + exc_name(e)
    ths = [threading.Thread(target=body, args=(i,), name=f'T{i}', daemon=True) for i in range(len(hs))]
    try:
        for t in ths:
            t.start()
        for t in ths:
            t.join(timeout=20)
        hung = any(t.is_alive() for t in ths)
    finally:
        gate.finish()
        for t in ths:
            t.join(timeout=5)
        tl.REC.mode = 'off'
        tl.REC.gate = None
    return out, base.getvalue(), hung


def to_model(traces):
    """-> (guard map or None, programs, shared objects, reason)"""
    objs = [set(e[2][0] for e in tr if e[1] == 'call') for tr in traces]
    shared = set()
    for i in range(len(objs)):
        for j in range(i + 1, len(objs)):
            shared |= objs[i] & objs[j]
    guard = {}
    reason = None
    for x in sorted(shared):
        common = None
        first = None
        for tr in traces:
            for e in tr:
                if e[1] == 'call' and e[2][0] == x:
                    common = set(e[3]) if common is None else common & set(e[3])
                    first = first or e[3]
        if common:
            # the outermost common lock: the one taken first, hence held across the inner critical sections
            guard[x] = next(l for l in first if l in common)
        else:
            reason = f'no lock is held at every access to shared object {tl.REC.names.get(x)}#{x}'
    progs = []
    for tr in traces:
        p = []
        for e in tr:
            if e[1] == 'acq':
                p.append(['a', e[2]])
            elif e[1] == 'rel':
                p.append(['r', e[2]])
            elif e[2][0] in shared:
                if e[2][1] == 'seek' and (len(e[2]) < 4 or e[2][3] in (0, 2)):
                    # absolute and end-relative seeks do not depend on the current position
                    p.append(['s', e[2][0], max(e[2][2], 0) if (len(e[2]) < 4 or e[2][3] == 0) else 10 ** 9 + max(-e[2][2], 0)])
                else:
                    p.append(['u', e[2][0]])
        progs.append(p)
    return guard, progs, shared, reason


def lock_ranks(traces):
    """a ranking of the locks compatible with every nesting seen in the traces (lock h held while l is taken => h before l),
    or None (and the offending cycle) when the nestings contradict each other"""
    edges = {}
    locks = set()
    for tr in traces:
        for e in tr:
            if e[1] == 'acq':
                locks.add(e[2])
                for h in e[3]:
                    locks.add(h)
                    if h != e[2]:
                        edges.setdefault(h, set()).add(e[2])
    rank, state = {}, {}

    def visit(l, path):
        if state.get(l) == 1:
            return path[path.index(l):] + [l]
        if state.get(l) == 2:
            return None
        state[l] = 1
        for m in sorted(edges.get(l, ())):
            cyc = visit(m, path + [l])
            if cyc:
                return cyc
        state[l] = 2
        rank[l] = len(rank)
        return None
    for l in sorted(locks):
        cyc = visit(l, [])
        if cyc:
            return None, cyc
    n = len(rank)
    return {l: n - r for l, r in rank.items()}, None       # reverse post-order: predecessors get smaller ranks


def deadlock_schedules(traces, cyc):
    """schedules that bring two threads to a pair of opposite nested acquisitions: a holds h and asks for l, b holds l and asks
    for h; each thread runs alone up to (not including) its acquisition, then both continue"""
    n = [len(t) for t in traces]
    nested = []
    for a, tr in enumerate(traces):
        for i, e in enumerate(tr):
            if e[1] == 'acq' and e[3]:
                nested.append((a, i, set(e[3]), e[2]))
    seen = 0
    for a, ia, ha, wa in nested:
        for b, ib, hb, wb in nested:
            if a != b and wa in hb and wb in ha:
                seen += 1
                if seen > 6:
                    return
                yield [a] * ia + [b] * ib + [a] * (n[a] - ia) + [b] * (n[b] - ib)


def candidate_schedules(traces, shared):
    """interleavings that put the whole of one thread's run between two consecutive accesses of the other to a shared object"""
    n = [len(t) for t in traces]
    for a in range(len(traces)):
        for b in range(len(traces)):
            if a == b:
                continue
            last = {}
            for i, e in enumerate(traces[a]):
                if e[1] == 'call' and e[2][0] in shared:
                    x = e[2][0]
                    if x in last:
                        # cut between the previous access to x and this one
                        held = set(traces[a][i][3])
                        # the other thread runs until it would block on a lock this thread holds at the cut
                        k = next((j for j, ev in enumerate(traces[b]) if ev[1] == 'acq' and ev[2] in held), n[b])
                        if any(ev[1] == 'call' and ev[2][0] in shared for ev in traces[b][:k]):
                            yield [a] * i + [b] * k + [a] * (n[a] - i) + [b] * (n[b] - k)
                    last[x] = i


class C15(Check):
    prop = 'C15'
    case_timeout = 60
    hang_is_violation = True
    rule = ('for every reader type (windows on one file, RomFS, ExeFS, NCCH plain and two-key, CIA, CCI, NAND, DISA) every ordered pair '
            'and some triples of the handle kinds it hands out (sections, FullDecrypted view, merged ExeFS, nested readers\' files, '
            'NAND partitions of equal and of different key type, verified level-4 readers), one thread per handle, seek+read (and '
            'seek+write where writable) at varied offsets, with other handles opened and closed (or dropped unclosed) between the openings: the event trace of each operation (locks taken, calls on shared '
            'position-carrying objects with the locks held) is extracted from the real code by instrumentation, the lock '
            'discipline is evaluated on it by the Lean model, and where it fails the schedules that put one thread between two '
            'accesses of the other are replayed on the real code with a deterministic scheduler; non-trivial = always')
    trusted_base = [
        'Lean 4.33 kernel; axioms propext, Classical.choice, Quot.sound only',
        'granularity: one call on a shared object is atomic (true for the C-level BytesIO calls under the GIL; free-threaded '
        'builds and preemption inside a call are outside the model)',
        'the traces are EXTRACTED from single-threaded runs of the real operations by class-level instrumentation in the harness '
        'process (logging Lock/RLock, logging read/write/seek/tell of SubsectionIO, the crypto wrappers, the merger, the DPFS '
        'file and the base file); the theorem applies to the extracted traces, so data-dependent control flow that would take '
        'other locks on other inputs is not covered',
        'deadlock freedom: the no-deadlock theorem applies when the extracted lock nestings admit one ranking (computed by the harness, checked by the model on every program); a contradiction between nestings is replayed as a schedule on real threads and a hang is reported',
    ]
    assumptions = ['one thread per handle; a merged-split-file object shared directly between threads is excluded']

    def budget(self, tier):
        return 10 if tier == 'quick' else 120

    def exhaustive(self, tier):
        for kind, hs in HANDLES.items():
            for i, a in enumerate(hs):
                for b in hs:
                    if a == b and kind != 'windows':
                        # two handles of the same kind: one plain pair is enough
                        yield {'kind': kind, 'names': [a, b], 'ops': [['r', 1, 24], ['r', 7, 16]]}
                        continue
                    yield {'kind': kind, 'names': [a, b], 'ops': [['r', 1, 24], ['r', 7, 16]]}
                    if i == 0 or a in ('full', 'raw-0', 'c0.raw-exefs'):
                        yield {'kind': kind, 'names': [a, b], 'ops': [['r', 0, 1 << 20], ['r', 7, 16]]}
                    # a third handle is closed (or dropped unclosed) after a was opened and before b is
                    for c, how in ((b, 'close'), (a, 'del'), (hs[-1], 'close')):
                        yield {'kind': kind, 'names': [a, b], 'ops': [['r', 1, 24], ['r', 7, 16]], 'pre': [[c, how]]}
            if kind in WRITABLE:
                yield {'kind': kind, 'names': hs[:2], 'ops': [['w', 3, b'\xAA' * 20], ['r', 0, 32]]}
                yield {'kind': kind, 'names': hs[:2], 'ops': [['w', 3, b'\xAA' * 20], ['w', 9, b'\xBB' * 20]]}

    def gen(self, rng, tier, i):
        kind = rng.pick(sorted(HANDLES))
        k = rng.pick([2, 2, 3])
        names = [rng.pick(HANDLES[kind]) for _ in range(k)]
        ops = []
        for _ in names:
            if kind in WRITABLE and rng.chance(0.3):
                ops.append(['w', rng.randint(0, 40), rng.rbytes(rng.randint(1, 40))])
            else:
                ops.append(['r', rng.randint(0, 60), rng.randint(1, 64)])
        pre = [([rng.pick(HANDLES[kind]), rng.pick(['close', 'del'])] if rng.chance(0.5) else None) for _ in names[1:]]
        return {'kind': kind, 'names': names, 'ops': ops, 'pre': pre}

    def run_case(self, case, drv):
        envsetup.install()
        kind, names = case['kind'], list(case['names'])
        ops = [list(o) for o in case['ops']]
        pre = case.get('pre')
        # distinct handle objects even for equal names
        serials = []
        import itertools
        for order in itertools.permutations(range(len(names))):
            serials.append(run_serial(kind, names, ops, order, pre))
        traces = record(kind, names, ops, pre)
        guard, progs, shared, reason = to_model(traces)
        ranks, cycle = lock_ranks(traces)
        verdict = drv.ask(sexp(['sched-check', [[x, l] for x, l in sorted(guard.items())], progs,
                                [[l, r] for l, r in sorted((ranks or {}).items())]]))
        if cycle and reason is None and verdict in ('ok',) or (cycle and verdict.startswith('unordered')):
            reason = f'the lock nestings of the threads contradict each other: {cycle}'
        real = 'disciplined' if (verdict == 'ok' and reason is None) else 'undisciplined'
        model = 'disciplined'
        mon = []
        key = None
        info = {'kind:' + kind: 1, 'verdict:' + real: 1, 'shared:%d' % len(shared): 1, 'locks-ranked:%d' % len(ranks or {}): 1,
                'nested-acquisitions:%d' % sum(1 for tr in traces for e in tr if e[1] == 'acq' and e[3]): 1,
                'lifecycle:' + ('/'.join(sorted({p[1] for p in pre if p})) if pre and any(pre) else 'none'): 1}
        if real != 'disciplined':
            tried = 0
            import itertools as _it
            for order in _it.chain(deadlock_schedules(traces, cycle) if cycle else (), candidate_schedules(traces, shared)):
                tried += 1
                if tried > 12:
                    break
                out, final, hung = replay(kind, names, ops, order, pre)
                if hung:
                    mon.append(f'{kind} {names}: replayed schedule does not terminate (deadlock)')
                    key = f'{kind}:{"/".join(sorted(set(names)))}:deadlock'
                    break
                if not any(out == so and final == sf for so, sf in serials):
                    which = [i for i in range(len(names)) if all(out[i] != so[i] for so, _ in serials)]
                    what = 'a write landed elsewhere' if not which else f'handle {names[which[0]]} read bytes no serial run returns'
                    mon.append(f'{kind} {names} (handles closed/dropped in between: {pre}): under the schedule {compress(order)} {what} ({reason or verdict})')
                    key = f'{kind}:{"/".join(sorted(set(names)))}'
                    break
            info['replays:%d' % min(tried, 12)] = 1
        return CaseResult(real, model, mon, f'{kind}:{names}:{real}', key, info)

    def shrink(self, case):
        if len(case['names']) > 2:
            for i in range(len(case['names'])):
                c = dict(case)
                c['names'] = case['names'][:i] + case['names'][i + 1:]
                c['ops'] = case['ops'][:i] + case['ops'][i + 1:]
                yield c

    def neighbours(self, case, rng):
        # the same handle kinds paired with themselves and with each other (a lock-order contradiction inside one handle's own
        # operation becomes a deadlock between two such handles)
        names = list(dict.fromkeys(case['names']))
        for a in names:
            for b in names:
                yield {'kind': case['kind'], 'names': [a, b], 'ops': [['r', 1, 24], ['r', 7, 16]]}
        for a in names:
            for b in HANDLES[case['kind']]:
                if b not in names:
                    yield {'kind': case['kind'], 'names': [a, b], 'ops': [['r', 1, 24], ['r', 7, 16]]}


def compress(order):
    out = []
    for t in order:
        if out and out[-1][0] == t:
            out[-1][1] += 1
        else:
            out.append([t, 1])
    return ' '.join(f'T{t}x{n}' for t, n in out)


CHECK = C15()
