"""C16 — closing is complete, contained, idempotent and respects file ownership."""
import io
import os
import shutil
import tempfile

import closefix as cf
import envsetup
from common import Rng, exc_name, sexp
from framework import CaseResult, Check

KINDS = {
    # kind: (fixture key, handle kinds, nested readers: name suffix -> (kind, handle kinds))
    'romfs': ('romfs', ['open', 'openbin', 'openbin0'], {}),        # openbin0: a handle on a ZERO-LENGTH file
    'exefs': ('exefs', ['open', 'codedec'], {}),
    'ncch-plain': ('ncch-plain', ['raw-exefs', 'raw-romfs', 'raw-exh', 'full'], {'.exefs': ['open', 'codedec'], '.romfs': ['open', 'openbin']}),
    'ncch-split': ('ncch-split', ['raw-exefs', 'raw-romfs', 'raw-exh', 'full'], {'.exefs': ['open', 'codedec'], '.romfs': ['open', 'openbin']}),
    'ncch-simple': ('ncch-simple', ['raw-exefs', 'raw-romfs', 'raw-exh', 'full'], {'.exefs': ['open', 'codedec'], '.romfs': ['open', 'openbin']}),
    'cia': ('cia', ['raw-tmd', 'raw-0'], {'.c0': ['raw-exefs', 'raw-romfs', 'full'], '.c0.exefs': ['open'], '.c0.romfs': ['open', 'openbin']}),
    'cci': ('cci', ['raw-0'], {'.c0': ['raw-exefs', 'raw-romfs'], '.c0.exefs': ['open'], '.c0.romfs': ['open', 'openbin']}),
    'cdn': ('cdn', ['raw-0'], {'.c0': ['raw-exefs', 'raw-romfs'], '.c0.exefs': ['open'], '.c0.romfs': ['open', 'openbin']}),
    'sdtitle': ('sdtitle', ['raw-0'], {'.c0': ['raw-exefs', 'raw-romfs'], '.c0.exefs': ['open']}),
    'nand': ('nand', ['raw-0', 'raw-hdr', 'ctr-0', 'twl-0'], {'.ess': ['open']}),
    'diff': ('diff', [], {'.p0': ['lv4']}),
    'disa': ('disa', [], {'.p0': ['lv4'], '.p1': ['lv4']}),
    # level 4 stored outside the DPFS tree: the level-4 file is a window on the partition window, not on the level-3 file
    'diff-ext': ('diff-ext', [], {'.p0': ['lv4']}),
    'disa-ext': ('disa-ext', [], {'.p0': ['lv4'], '.p1': ['lv4']}),
}
DIR_KINDS = ('cdn', 'sdtitle')
_FIX = {}


def fixture(key):
    if key not in _FIX:
        envsetup.install()
        if key == 'romfs':
            _FIX[key] = cf.romfs_bytes()
        elif key == 'exefs':
            _FIX[key] = exefs_with_compressed_code()
        elif key == 'ncch-plain':
            _FIX[key] = cf.ncch_bytes(False)
        elif key == 'ncch-split':
            _FIX[key] = cf.ncch_bytes(True)
        elif key == 'ncch-simple':
            _FIX[key] = ncch_simple()
        elif key == 'cia':
            _FIX[key] = cf.cia_bytes(True)
        elif key == 'cci':
            _FIX[key] = cf.cci_bytes()
        elif key == 'cdn':
            _FIX[key] = cf.cdn_files(True)
        elif key == 'sdtitle':
            _FIX[key] = (cf.sdtitle_files(), None)
        elif key == 'nand':
            _FIX[key] = cf.nand_bytes()
        elif key == 'diff':
            _FIX[key] = cf.diff_bytes()
        elif key == 'disa':
            _FIX[key] = cf.disa_bytes()
        elif key == 'diff-ext':
            _FIX[key] = cf.diff_bytes(external=True)
        elif key == 'disa-ext':
            _FIX[key] = cf.disa_bytes(external=True)
    return _FIX[key]


def lzss_literal_only(data):
    """a valid backward-LZSS stream made of literals only (so `.code` decompresses to something different in length)"""
    # layout (from the end): 8-byte footer [off_size_comp (3 bytes | header size byte), extra size]; body holds flag bytes + literals
    out = bytearray()
    src = data[::-1]
    body = bytearray()
    i = 0
    while i < len(src):
        chunk = src[i:i + 8]
        body.append(0x00)                # 8 literals
        body += chunk
        i += 8
    body = body[::-1]
    comp_size = len(body) + 8
    footer = (comp_size | (8 << 24)).to_bytes(4, 'little') + (len(data) - comp_size).to_bytes(4, 'little', signed=True)
    return bytes(body) + footer


def exefs_with_compressed_code():
    import ncchbuild
    return cf.exefs_bytes()


def ncch_simple():
    import ncchbuild
    rng = Rng('c16-ncch-simple')
    prog = 0x0004000000123400
    desc = {'key_y': rng.rbytes(16), 'program_id': prog, 'partition_id': prog, 'crypto_method': 0, 'fixed_key': False,
            'no_crypto': False, 'seed': None, 'extheader': rng.rbytes(0x800), 'logo': None, 'plain': None,
            'exefs_files': [('.code', cf.CODE), ('banner', b'\x22' * 0x30)], 'romfs': cf.romfs_bytes(), 'gaps': None,
            'tail_gap': 0, 'rng': Rng('c16-ncch-simple-pad')}
    return ncchbuild.build(desc)[0]


class RealWorld:
    def __init__(self, tmp):
        self.tmp = tmp
        self.objs = {}
        self.kinds = {}
        self.pending_files = set()
        self.caller_fs = []         # filesystem objects the CALLER made and handed to a reader: they stay the caller's
        self.refuse = False         # every new handle / wrapper first gets a call that is rightly REFUSED (a negative seek)

    def make_reader(self, kind, name, src, cfd):
        from pyctr.type.romfs import RomFSReader
        from pyctr.type.exefs import ExeFSReader
        from pyctr.type.ncch import NCCHReader
        from pyctr.type.cia import CIAReader
        from pyctr.type.cci import CCIReader
        from pyctr.type.cdn import CDNReader
        from pyctr.type.sdtitle import SDTitleReader
        from pyctr.type.nand import NAND
        from pyctr.type.save.diff import DIFF
        from pyctr.type.save.disa import DISA
        fx = fixture(KINDS[kind][0])
        kw = {} if cfd is None else {'closefd': cfd}
        if kind in DIR_KINDS:
            from fs.osfs import OSFS
            d = tempfile.mkdtemp(dir=self.tmp)
            files, tk = fx
            o = OSFS(d)
            self.caller_fs.append(o)
            for n, data in files.items():
                o.writebytes(n, data)
            r = CDNReader('tmd', fs=o, decrypted_titlekey=tk) if kind == 'cdn' else SDTitleReader('00000000.tmd', fs=o)
        else:
            data = fx[0] if kind == 'nand' else fx
            extra = {'otp': fx[1], 'cid': fx[2]} if kind == 'nand' else {}
            if src in ('path', 'path-b', 'path-p', 'fs'):
                p = os.path.join(self.tmp, f'{name}-{len(self.objs)}.bin')
                with open(p, 'wb') as f:
                    f.write(data)
                if src == 'fs':
                    from fs.osfs import OSFS
                    kw = dict(kw, fs=OSFS(self.tmp))
                    self.caller_fs.append(kw['fs'])
                    arg = os.path.basename(p)
                else:
                    # every spelling of a path the library accepts: str, bytes, os.PathLike
                    import pathlib
                    arg = {'path': p, 'path-b': os.fsencode(p), 'path-p': pathlib.Path(p)}[src]
            else:
                arg = io.BytesIO(data)
                self.objs[src] = arg
            cls = {'romfs': RomFSReader, 'exefs': ExeFSReader, 'ncch-plain': NCCHReader, 'ncch-split': NCCHReader,
                   'ncch-simple': NCCHReader, 'cia': CIAReader, 'cci': CCIReader, 'nand': NAND, 'diff': DIFF, 'disa': DISA,
                   'diff-ext': DIFF, 'disa-ext': DISA}[kind]
            r = cls(arg, **extra, **kw)
            if src in ('path', 'path-b', 'path-p', 'fs'):
                self.objs[name + '.file'] = r._file
        self.objs[name] = r
        self.kinds[name] = kind
        # nested readers
        if kind.startswith('ncch'):
            self.reg_ncch(name, r, kind)
        if kind in ('cia', 'cdn', 'sdtitle'):
            self.reg_ncch(name + '.c0', r.contents[0], 'ncch-plain')
        if kind == 'cci':
            from pyctr.type.cci import CCISection
            self.reg_ncch(name + '.c0', r.contents[CCISection.Application], 'ncch-plain')
        if kind == 'nand':
            self.objs[name + '.ess'] = r.essential
            self.kinds[name + '.ess'] = 'exefs'
        if kind in ('diff', 'disa', 'diff-ext', 'disa-ext'):
            for i, p in r.partitions.items():
                self.objs[f'{name}.p{i}'] = p
                self.kinds[f'{name}.p{i}'] = 'partition'
                self.objs[f'{name}.p{i}.lv3'] = p.dpfs_lv3_file

    def reg_ncch(self, name, r, kind):
        self.objs[name] = r
        self.kinds[name] = kind
        self.objs[name + '.exefs'] = r.exefs
        self.kinds[name + '.exefs'] = 'exefs'
        self.objs[name + '.romfs'] = r.romfs
        self.kinds[name + '.romfs'] = 'romfs'

    def open_handle(self, reader, hk, hname):
        from pyctr.type.ncch import NCCHSection
        from pyctr.type.cia import CIASection
        from pyctr.type.cci import CCISection
        r = self.objs[reader]
        kind = self.kinds[reader]
        if kind == 'romfs':
            if hk == 'openbin0':
                h = r.openbin('/empty.bin')
            else:
                h = r.open('/a.txt', 'rb') if hk == 'open' else r.openbin('/a.txt')
        elif kind == 'exefs':
            if hk == 'codedec':
                r.decompress_code()
                h = r.open('.code-decompressed')
            else:
                h = r.open('banner' if 'banner' in r.entries else 'otp')
        elif kind.startswith('ncch'):
            h = r.open_raw_section({'raw-exefs': NCCHSection.ExeFS, 'raw-romfs': NCCHSection.RomFS, 'raw-exh': NCCHSection.ExtendedHeader,
                                    'full': NCCHSection.FullDecrypted}[hk])
        elif kind == 'cia':
            h = r.open_raw_section(CIASection.TitleMetadata if hk == 'raw-tmd' else 0)
        elif kind == 'cci':
            h = r.open_raw_section(CCISection.Application)
        elif kind in ('cdn', 'sdtitle'):
            h = r.open_raw_section(0)
        elif kind == 'nand':
            h = {'raw-0': lambda: r.open_raw_section(0), 'raw-hdr': lambda: r.open_raw_section(-3),
                 'ctr-0': lambda: r.open_ctr_partition(0), 'twl-0': lambda: r.open_twl_partition(0)}[hk]()
        elif kind == 'partition':
            from pyctr.type.save.partdesc.ivfc import IVFCLevel4Reader
            h = IVFCLevel4Reader(r.ivfc_hash_tree)
        else:
            raise KeyError(kind)
        self.objs[hname] = h
        self.refused_call(h)

    def refused_call(self, h):
        """an error on an OPEN handle (a negative seek is refused with ValueError) must leave no trace: in particular the handle
        still refuses everything once it is closed"""
        if self.refuse:
            for bad in ((-1,), (-5, 0), (0, 7)):
                try:
                    h.seek(*bad)
                except Exception:  # noqa
                    pass

    def run(self, op):
        k = op[0]
        try:
            if k == 'file':
                return 'ok'
            if k == 'reader':
                self.make_reader(op[1], op[2], op[3], {'none': None, 'true': True, 'false': False}[op[4]])
                return 'ok'
            if k == 'open':
                self.open_handle(op[1], op[2], op[3])
                return 'ok'
            if k == 'wrap':
                import pyctr.crypto.engine as e
                eng = e.CryptoEngine()
                for slot in (0x01, 0x2C):
                    eng.set_normal_key(slot, bytes(16))
                if op[3] not in self.objs:
                    self.objs[op[3]] = io.BytesIO(bytes(64))
                kw = {} if op[4] == 'none' else {'closefd': op[4] == 'true'}
                inner = self.objs[op[3]]
                if op[1] == 'cbc':
                    self.objs[op[2]] = eng.create_cbc_io(0x2C, inner, bytes(16), **kw)
                elif op[1] == 'cbc-direct':
                    self.objs[op[2]] = e.CBCFileIO(inner, eng, 0x2C, bytes(16), **kw)
                elif op[1] == 'ctr-direct':
                    self.objs[op[2]] = e.CTRFileIO(inner, eng, 0x2C, 0, **kw)
                elif op[1] == 'twl-direct':
                    self.objs[op[2]] = e.TWLCTRFileIO(inner, eng, 0x01, 0, **kw)
                else:
                    self.objs[op[2]] = eng.create_ctr_io(0x01 if op[1] == 'twl' else 0x2C, inner, 0, **kw)
                self.refused_call(self.objs[op[2]])
                return 'ok'
            if k == 'close':
                self.objs[op[1]].close()
                return 'ok'
            if k == 'io':
                o = self.objs[op[1]]
                if op[2] == 'read':
                    o.seek(0) if False else None
                    o.read(1)
                else:
                    o.tell()
                return 'ok'
            if k == 'closed?':
                return 'T' if self.objs[op[1]].closed else 'F'
        except ValueError:
            return 'V'
        except Exception as e:      # noqa
            return 'X:' + exc_name(e)
        return 'bad-op'


def handle_sites(kind):
    """(reader name suffix, handle kind) for every handle a reader of this kind offers, nested readers included"""
    _, own, nested = KINDS[kind]
    out = [('', hk) for hk in own]
    for suffix, hks in nested.items():
        out += [(suffix, hk) for hk in hks]
    return out


def gen_script(rng, kind, src, cfd, sites, tail):
    """ops: create, open handles, then the tail (closes / ios)"""
    ops = []
    if src == 'obj' and kind not in DIR_KINDS:
        ops.append(['file', 'f'])
    srcarg = 'f' if (src == 'obj' and kind not in DIR_KINDS) else src
    ops.append(['reader', kind, 'r', srcarg, {None: 'none', True: 'true', False: 'false'}[cfd]])
    names = []
    for i, (suffix, hk) in enumerate(sites):
        ops.append(['open', 'r' + suffix, hk, f'h{i}'])
        names.append(f'h{i}')
    return ops + tail(names)


class C16(Check):
    prop = 'C16'
    rule = ('exhaustive: reader type (RomFS, ExeFS, NCCH plain / two-key / one-key, CIA, CCI, CDN, SDTitle, NAND, DIFF, DISA) x source '
            '(external level 4 too) x (caller file object, path, filesystem + path) x closefd (default, True, False) x every handle kind incl. nested '
            'readers\' handles and the in-memory .code-decompressed x orders {reader close then tell then read; reader close then '
            'read; every handle read twice (caches warm) then reader close then read; handle close then sibling use then reader use; '
            'double closes; nested reader close}; constructors that RAISE (garbage, truncated input, no key material for the engine) on a '
            'caller-supplied file object x closefd; paths spelled as str / bytes / pathlib.Path; every handle or wrapper first given a call that is '
            'rightly refused (negative seek, bad whence); filesystem objects handed in as fs= must stay open; random longer interleavings '
            'on top; observables: ValueError or not per call, closed flag of the file; non-trivial = always')
    trusted_base = [
        'Lean 4.33 kernel; axioms propext, Classical.choice, Quot.sound only',
        'PyctrModel/Sys/Close.lean is a transcription of the close() / closed-check logic of every class (which objects a close '
        'closes, whose closed flag an I/O method consults, what it calls into); it is tied to the code by the exhaustive '
        'configuration matrix, not derived from it',
        'WeakSet / __del__ driven closing is outside the model: the harness keeps every object alive',
        'pyfilesystem2 MemoryFS files keep returning data after close(); directory-based readers are exercised on OSFS',
    ]
    assumptions = ['"I/O call" = read and tell (a data call and a position-only call); write/seek share their decorators']

    def budget(self, tier):
        return 150 if tier == 'quick' else 1500

    def exhaustive(self, tier):
        for flavour in ('ctr', 'twl', 'cbc', 'ctr-direct', 'twl-direct', 'cbc-direct'):
            for cfd in (None, True, False):
                for tail in ('wrap-close', 'wrap-inner-first', 'wrap-double'):
                    yield {'kind': 'wrapper', 'flavour': flavour, 'src': 'obj', 'cfd': cfd, 'sites': [], 'tail': tail, 'q': []}
                    # ... after a call on the open wrapper was rightly refused (a negative seek)
                    yield {'kind': 'wrapper', 'flavour': flavour, 'src': 'obj', 'cfd': cfd, 'sites': [], 'tail': tail, 'q': [], 'refuse': True}
        for kind in ('romfs', 'exefs', 'ncch-plain', 'ncch-split', 'cia', 'cci', 'diff', 'disa'):
            for how in ('garbage', 'truncated', 'nokeys'):
                for cfd in (None, False, True):
                    yield {'kind': kind, 'how': how, 'cfd': cfd, 'tail': 'ctorfail', 'src': 'obj', 'sites': [], 'q': []}
        for kind in KINDS:
            srcs = ['path'] if kind in DIR_KINDS else ['obj', 'path', 'path-b', 'path-p', 'fs']
            cfds = [None] if kind in DIR_KINDS else [None, True, False]
            for src in srcs:
                for cfd in cfds:
                    sites = handle_sites(kind)
                    filename = 'f' if (src == 'obj' and kind not in DIR_KINDS) else ('r.file' if kind not in DIR_KINDS else None)
                    q = [['closed?', filename]] if filename else []
                    # reader close, position-only call first
                    yield {'kind': kind, 'src': src, 'cfd': cfd, 'sites': sites, 'tail': 'reader-tell-read', 'q': q}
                    yield {'kind': kind, 'src': src, 'cfd': cfd, 'sites': sites, 'tail': 'reader-read-tell', 'q': q}
                    yield {'kind': kind, 'src': src, 'cfd': cfd, 'sites': sites + sites, 'tail': 'handles-first', 'q': q}
                    yield {'kind': kind, 'src': src, 'cfd': cfd, 'sites': sites, 'tail': 'double', 'q': q}
                    # every handle used (data read twice: whatever it caches is warm) BEFORE the reader is closed
                    yield {'kind': kind, 'src': src, 'cfd': cfd, 'sites': sites, 'tail': 'warm-reader-read-tell', 'q': q}
                    # every handle had a call REFUSED while it was open (error-path state must not disarm the closed check)
                    if src == 'obj' or kind in DIR_KINDS:
                        yield {'kind': kind, 'src': src, 'cfd': cfd, 'sites': sites, 'tail': 'reader-read-tell', 'q': q, 'refuse': True}
                        yield {'kind': kind, 'src': src, 'cfd': cfd, 'sites': sites + sites, 'tail': 'handles-first', 'q': q, 'refuse': True}
                    for suffix in KINDS[kind][2]:
                        yield {'kind': kind, 'src': src, 'cfd': cfd, 'sites': sites, 'tail': 'nested:' + suffix, 'q': q}

    def run_ctorfail(self, case):
        """the constructor RAISES (input it rejects, or no key material for the engine it would create): a caller-supplied file
        object must still be open and usable afterwards unless closefd was requested"""
        from pyctr.type.romfs import RomFSReader
        from pyctr.type.exefs import ExeFSReader
        from pyctr.type.ncch import NCCHReader
        from pyctr.type.cia import CIAReader
        from pyctr.type.cci import CCIReader
        from pyctr.type.save.diff import DIFF
        from pyctr.type.save.disa import DISA
        kind, how, cfd = case['kind'], case['how'], case['cfd']
        e = envsetup.install()
        fx = fixture(KINDS[kind][0])
        data = bytearray(fx[0] if isinstance(fx, tuple) else fx)
        cls = {'romfs': RomFSReader, 'exefs': ExeFSReader, 'ncch-plain': NCCHReader, 'ncch-split': NCCHReader,
               'ncch-simple': NCCHReader, 'cia': CIAReader, 'cci': CCIReader, 'diff': DIFF, 'disa': DISA}[kind]
        if how == 'garbage':
            data = bytearray(b'\x5A' * len(data))
        elif how == 'truncated':
            data = data[:0x40]
        f = io.BytesIO(bytes(data))
        kw = {} if cfd is None else {'closefd': cfd}
        saved = dict(e._b9_keyblob)
        try:
            if how == 'nokeys':
                e._b9_keyblob.clear()
                e.b9_blobs_loaded = False
            try:
                r = cls(f, **kw)
                out = 'constructed'
                r.close()
            except Exception as ex:  # noqa
                out = 'e:' + exc_name(ex)
        finally:
            e._b9_keyblob.update(saved)
            envsetup.install()
        closed = f.closed
        usable = False
        if not closed:
            try:
                f.seek(0)
                f.read(1)
                usable = True
            except Exception:  # noqa
                pass
        real = f'{out} closed={closed} usable={usable}'
        mon = []
        if out.startswith('e:') and cfd is not True and (closed or not usable):
            mon.append(f'{kind}: the constructor raised {out[2:]} ({how}) and the caller\'s file object (closefd={cfd}) is '
                       f'{"closed" if closed else "unusable"} afterwards')
        exp = real if not mon else f'{out} closed=False usable=True'
        return CaseResult(real, exp, mon, f'ctorfail:{kind}:{how}:{cfd}', None, {f'ctor fails:{how}': 1, f'kind:{kind}': 1})

    def gen(self, rng, tier, i, kind=None):
        kind = kind or rng.pick(list(KINDS))
        src = 'path' if kind in DIR_KINDS else rng.pick(['obj', 'path', 'path-b', 'path-p', 'fs'])
        cfd = None if kind in DIR_KINDS else rng.pick([None, True, False])
        allsites = handle_sites(kind)
        sites = [rng.pick(allsites) for _ in range(rng.randint(1, 5))]
        steps = []
        for _ in range(rng.randint(2, 10)):
            r = rng.random()
            if r < 0.25:
                steps.append(['close', 'h%d' % rng.randrange(len(sites))])
            elif r < 0.65:
                steps.append(['io', 'h%d' % rng.randrange(len(sites)), rng.pick(['read', 'tell'])])
            elif r < 0.8:
                steps.append(['close', 'r'])
            elif r < 0.9 and KINDS[kind][2]:
                steps.append(['close', 'r' + rng.pick(list(KINDS[kind][2]))])
            else:
                steps.append(['io', 'h%d' % rng.randrange(len(sites)), 'tell'])
        filename = 'f' if (src == 'obj' and kind not in DIR_KINDS) else ('r.file' if kind not in DIR_KINDS else None)
        return {'kind': kind, 'src': src, 'cfd': cfd, 'sites': sites, 'tail': 'random', 'steps': steps,
                'q': [['closed?', filename]] if filename else [], 'refuse': rng.chance(0.3)}

    def script(self, case):
        kind, q = case['kind'], case['q']
        t = case['tail']
        if kind == 'wrapper':
            c = {None: 'none', True: 'true', False: 'false'}[case['cfd']]
            head = [['file', 'f'], ['wrap', case['flavour'], 'w', 'f', c], ['wrap', case['flavour'], 'w2', 'f', 'false'], ['io', 'w', 'read']]
            if t == 'wrap-close':
                return head + [['close', 'w'], ['closed?', 'f'], ['io', 'w', 'tell'], ['io', 'w', 'read'], ['io', 'w2', 'tell'], ['closed?', 'f']]
            if t == 'wrap-inner-first':
                return head + [['close', 'f'], ['io', 'w', 'tell'], ['io', 'w', 'read'], ['close', 'w'], ['close', 'w'], ['closed?', 'f']]
            return head + [['close', 'w'], ['close', 'w'], ['close', 'w2'], ['closed?', 'f'], ['io', 'w2', 'read']]

        def tail(names):
            if t == 'reader-tell-read':
                return q + [['close', 'r']] + q + [x for n in names for x in (['io', n, 'tell'], ['io', n, 'read'])] + [['close', 'r']] + \
                    [['close', n] for n in names] + q
            if t == 'warm-reader-read-tell':
                return [x for n in names for x in (['io', n, 'read'], ['io', n, 'read'])] + [['close', 'r']] + \
                    [x for n in names for x in (['io', n, 'read'], ['io', n, 'tell'])] + q
            if t == 'reader-read-tell':
                return [['close', 'r']] + [x for n in names for x in (['io', n, 'read'], ['io', n, 'tell'])] + q
            if t == 'handles-first':
                half = len(names) // 2
                ops = []
                for n in names[:half]:
                    ops += [['close', n], ['close', n], ['io', n, 'tell'], ['io', n, 'read']]
                    ops += [x for m in names[half:] for x in (['io', m, 'read'],)]
                return ops + q + [['close', 'r']] + [x for n in names for x in (['io', n, 'tell'], ['io', n, 'read'])] + q
            if t == 'double':
                return [['close', 'r'], ['close', 'r']] + [['close', n] for n in names] + [['close', n] for n in reversed(names)] + \
                    [['io', n, 'tell'] for n in names] + q
            if t.startswith('nested:'):
                nm = 'r' + t[7:]
                return [['close', nm], ['close', nm]] + [x for n in names for x in (['io', n, 'tell'], ['io', n, 'read'])] + q + \
                    [['close', 'r']] + [['io', n, 'tell'] for n in names] + q
            return [list(s) for s in case['steps']] + q + [['close', 'r']] + [['io', n, 'tell'] for n in names] + q
        return gen_script(None, kind, case['src'], case['cfd'], [tuple(s) for s in case['sites']], tail)

    def run_case(self, case, drv):
        envsetup.install()
        if case.get('tail') == 'ctorfail':
            return self.run_ctorfail(case)
        ops = self.script(case)
        tmp = tempfile.mkdtemp(prefix='pyctr-verif-c16-')
        try:
            w = RealWorld(tmp)
            w.refuse = bool(case.get('refuse'))
            real = [w.run(op) for op in ops]
            fs_closed = [f for f in w.caller_fs if f.isclosed()]
            for o in w.objs.values():
                try:
                    o.close()
                except Exception:     # noqa
                    pass
        finally:
            shutil.rmtree(tmp, ignore_errors=True)
        mops = [['reader', op[1], op[2], 'path' if op[3] in ('path', 'path-b', 'path-p', 'fs') else op[3], op[4]] if op[0] == 'reader' else
                ([op[0], op[1], 'openbin', op[3]] if op[0] == 'open' and op[2] == 'openbin0' else op) for op in ops]
        model = drv.ask(sexp(['close-run'] + mops)).split(' ')
        # non-vacuity of the every-level completeness theorem: are its side conditions met by the graph this script builds?
        geom = drv.ask(sexp(['close-geom'] + mops))
        # ---- the property, stated on the real outcomes
        mon = []
        key = None
        kind, src, cfd = case['kind'], case['src'], case['cfd']
        if kind == 'wrapper':
            closed_w = False
            for op, out in zip(ops, real):
                if out.startswith('X:') or out.startswith('bad'):
                    mon.append(f'{op} -> {out}')
                if op == ['close', 'w']:
                    closed_w = True
                    if out != 'ok':
                        mon.append('closing a crypto wrapper raised')
                if op[0] == 'closed?' and closed_w and case['tail'] != 'wrap-inner-first':
                    if (out == 'T') != (cfd is True):
                        mon.append(f'{case["flavour"]} wrapper with closefd={cfd}: underlying file closed={out} after closing the wrapper '
                                   f'(documented default False)')
                if op[0] == 'io' and op[1] == 'w' and closed_w and out != 'V':
                    mon.append(f'{op[2]}() on a closed crypto wrapper returned')
            info = {'kind:wrapper': 1, f'flavour:{case["flavour"]}': 1, 'close-graph:' + geom: 1}
            return CaseResult(real, model, mon, f'wrapper:{case["flavour"]}:{cfd}:{case["tail"]}', None, info)
        reader_closed = False
        closed_handles = set()
        nested_closed = set()
        sites = {f'h{i}': tuple(s) for i, s in enumerate(case['sites'])}
        for op, out in zip(ops, real):
            if out.startswith('X:') or out.startswith('bad'):
                mon.append(f'{op} -> {out}')
                break
            if op[0] == 'close':
                if out != 'ok':
                    mon.append(f'close({op[1]}) raised {out}')
                    if op[1] in sites and sites[op[1]][1] == 'open' and (sites[op[1]][0].endswith('romfs') or kind == 'romfs'):
                        key = 'romfs.open-wrapper-close-after-reader' 
                if op[1] == 'r':
                    reader_closed = True
                elif op[1] in sites:
                    closed_handles.add(op[1])
                else:
                    nested_closed.add(op[1][1:])
            elif op[0] == 'io':
                h = op[1]
                suffix = sites[h][0]
                under_closed_nested = any(suffix == n or suffix.startswith(n + '.') for n in nested_closed)
                must_raise = reader_closed or h in closed_handles or under_closed_nested
                if must_raise and out != 'V':
                    why = 'the reader was closed' if reader_closed else ('the handle was closed' if h in closed_handles else 'its reader was closed')
                    mon.append(f'{op[2]}() on handle {sites[h]} returned although {why}')
                if not must_raise and out != 'ok':
                    mon.append(f'{op[2]}() on open handle {sites[h]} raised after closing {sorted(closed_handles) or sorted(nested_closed)}')
            elif op[0] == 'closed?':
                if kind in DIR_KINDS:
                    continue
                want_after = (cfd is True) or (cfd is None and src != 'obj')
                want = reader_closed and want_after
                if (out == 'T') != want:
                    mon.append(f'file closed={out} with closefd={cfd}, source {src}, reader closed={reader_closed}')
            if mon:
                break
        if fs_closed and not mon:
            mon.append("a filesystem object the caller handed in (fs=) was closed by the library: it belongs to the caller")
        info = {'close-graph:' + geom: 1, f'kind:{kind}': 1, f'src:{src}': 1, f'cfd:{cfd}': 1, f'tail:{case["tail"].split(":")[0]}': 1,
                'a call refused on every open handle first:%s' % bool(case.get('refuse')): 1}
        return CaseResult(real, model, mon, f'{kind}:{src}:{cfd}:{case["tail"]}:{len(ops)}', key, info)

    def shrink(self, case):
        if case['tail'] == 'random':
            st = case['steps']
            for i in range(len(st)):
                c = dict(case)
                c['steps'] = st[:i] + st[i + 1:]
                yield c

    def neighbours(self, case, rng):
        for _ in range(30):
            yield self.gen(rng, 'quick', 0, kind=case['kind'])


CHECK = C16()
