"""C13 — NAND: each partition is decrypted with the keyslot and counter its type dictates."""
import io
import struct

import envsetup
import nandbuild as nb
from common import Rng, exc_name, sexp
from framework import CaseResult, Check
from reffile import RefFile
from stackcheck import gen_ops

STD_TYPES = [(1, 1), (4, 2), (3, 2), (3, 2), (1, 2)]       # twl, agb, firm0, firm1, ctr(old)


def gen_desc(rng):
    """JSON-able description of an image"""
    new3ds = rng.chance(0.4)
    layout = rng.pick(['std', 'std', 'perm', 'odd', 'noctr', 'notwl'])
    types = [(1, 1), (4, 2), (3, 2), (3, 2), (1, 3 if new3ds else 2)]
    if layout == 'perm':
        rng.shuffle(types)
    elif layout == 'odd':
        types = types + [rng.pick([(3, 2), (2, 2), (1, 7), (5, 1)])]
        rng.shuffle(types)
    elif layout == 'noctr':
        types = [t for t in types if not (t[0] == 1 and t[1] in (2, 3))]
        if rng.chance(0.5):
            rng.shuffle(types)
    elif layout == 'notwl':
        types = [t for t in types if t != (1, 1)]
    slots = sorted(rng.sample(range(8), len(types))) if rng.chance(0.3) else list(range(len(types)))
    parts = [None] * 8
    pos = 8
    for sl, (fs, cr) in zip(slots, types):
        pos += rng.pick([0, 0, 1, 3])
        size = rng.randint(2, 9)
        parts[sl] = {'fs': fs, 'crypt': cr, 'offset_mu': pos, 'size_mu': size, 'seed': rng.getrandbits(32),
                     'mbr': rng.pick(['std', 'std', 'small', 'small', 'bad'])}
        pos += size
    cid_mode = rng.pick(['arg', 'arg', 'essential', 'withheld', 'withheld'])
    otp_mode = rng.pick(['arg-dec', 'arg-enc', 'essential', 'essential-enc'])
    return {'otp_history': rng.pick([0, 0, 0, 1, 2]), 'file_start': rng.pick([0, 0, 0, 0x200, 0x4D0, 0x1230]),
            'dev': int(rng.chance(0.3)), 'parts': parts, 'cid': rng.rbytes(16), 'cid_mode': cid_mode, 'otp_mode': otp_mode,
            'image_mu': rng.pick([0x200000, 0x280000]), 'otp_seed': rng.getrandbits(32), 'layout': layout,
            'auto_raise': int(rng.chance(0.5)), 'seed': rng.getrandbits(32), 'tail': rng.pick([0, 0, 0x200])}


def materialise(desc):
    """-> (image, info)"""
    e = envsetup.install()
    target = 'dev' if desc['dev'] else 'retail'
    blob = e._b9_keyblob[target]
    okey, oiv = e._otp_key_iv[target]
    rng = Rng(desc['otp_seed'])
    _, dec, enc = nb.make_otp(rng, False, okey, oiv)
    prng = Rng(desc['seed'])
    parts = []
    subs = {}
    for i, p in enumerate(desc['parts']):
        if p is None:
            parts.append(None)
            continue
        r = Rng(p['seed'])
        size = p['size_mu'] * 0x200
        plain = bytearray(r.rbytes(size))
        kind = nb.part_kind(p)
        if kind in ('twl', 'ctr_old', 'ctr_new'):
            if p['mbr'] == 'bad':
                sec = bytearray(r.rbytes(0x200))
                sec[0x1FE:0x200] = b'\x12\x34'
                sub = []
            elif kind == 'twl' and p['mbr'] == 'std':
                sec = bytearray(0x200)
                sec[0x1BE:0x1C0] = b'\x00\x03'
                sec[0x1C0:0x1D0] = nb.TWL_STD_1C0
                sec[0x1D0:0x1E0] = nb.TWL_STD_1D0
                sec[0x1FE:0x200] = b'\x55\xAA'
                sub = [(0x97 * 0x200, 0x047DA9 * 0x200), (0x04808D * 0x200, 0x105B3 * 0x200), (0, 0), (0, 0)]
            elif kind != 'twl' and p['mbr'] == 'std':
                n = max(1, p['size_mu'] - 1)
                sec = bytearray(nb.mbr([(1, n)]))
                sub = [(0x200, n * 0x200), (0, 0), (0, 0), (0, 0)]
            else:
                cnt = r.randint(1, 3)
                sl = []
                o = 1
                for _ in range(cnt):
                    if o >= p['size_mu']:
                        break
                    n = r.randint(1, p['size_mu'] - o)          # sub-partitions stay inside the NCSD partition
                    sl.append((o, n))
                    o += r.pick([n, 1])
                cnt = len(sl)
                sec = bytearray(nb.mbr(sl, filler=r.rbytes(0x1BE)))
                sub = [(a * 0x200, b * 0x200) for a, b in sl] + [(0, 0)] * (4 - cnt)
            plain[:0x200] = sec
            subs[i] = sub
        parts.append(dict(p, plain=bytes(plain)))
    d = {'parts': parts, 'cid': bytes(desc['cid']), 'dev': bool(desc['dev']), 'image_mu': desc['image_mu'], 'otp_dec': dec,
         'otp_enc': enc, 'sig': prng.rbytes(0x100), 'unknown': prng.rbytes(94), 'twl_mbr_enc': prng.rbytes(66), 'tail': desc['tail']}
    ess = {}
    if desc['otp_mode'].startswith('essential'):
        ess['otp'] = True
        ess['otp_enc'] = desc['otp_mode'].endswith('enc')
    if desc['cid_mode'] == 'essential':
        ess['cid'] = True
    d['essential'] = ess or None
    img, keys, ctrs, kinds = nb.build(d, blob, okey, oiv)
    otp_arg = {'arg-dec': dec, 'arg-enc': enc}.get(desc['otp_mode'])
    cid_arg = bytes(desc['cid']) if desc['cid_mode'] == 'arg' else None
    return img, {'keys': keys, 'ctrs': ctrs, 'kinds': kinds, 'subs': subs, 'parts': parts, 'otp_arg': otp_arg, 'cid_arg': cid_arg,
                 'blob': blob, 'okey': okey, 'oiv': oiv}


def render_real(nand):
    h = nand.header
    eng = nand._crypto
    tab = ','.join(f'{int(k)}:{int(p.fs_type)}:{int(p.encryption_type)}:{p.offset}:{p.size}:{p.base_file}'
                   for k, p in h.partition_table.items())
    opt = lambda v: 'none' if v is None else str(int(v))
    parts = lambda l: ','.join(f'{o}:{n}' for o, n in l)
    keys = ','.join(eng.key_normal[s].hex() if s in eng.key_normal else 'none' for s in (3, 4, 5, 6, 7))
    return (f'ok hdr={bytes(h).hex()} table={tab} img={h.image_size}:{h.actual_image_size} '
            f'ess={"none" if nand.essential is None else len(nand.essential.entries)} idx={opt(nand.twl_index)},{opt(nand.ctr_index)} '
            f'ctr={opt(nand.counter)} twlctr={opt(nand.counter_twl)} ctrparts={parts(nand.ctr_partitions)} '
            f'twlparts={parts(nand.twl_partitions)} keys={keys}')


class StartedBytesIO(io.BytesIO):
    def __init__(self, data, start):
        super().__init__(data)
        self._verif_start = start
        self.seek(start)

    def getvalue(self):
        return super().getvalue()[self._verif_start:]


def open_real(img, info, desc, bio=None):
    from pyctr.type.nand import NAND
    # the image need not begin at position 0 of the file object it is read from (a NAND embedded in a larger blob): the reader
    # starts where the file object stands; `StartedBytesIO.getvalue()` gives the image part back
    start = desc.get('file_start', 0)
    if bio is None:
        bio = StartedBytesIO(b'\xEE' * start + img, start)
    kw = {}
    if desc.get('otp_history') and info['otp_arg'] is not None:
        # (only when the OTP is given as an ARGUMENT: an engine that already has console-unique keys is documented to keep them when
        # the OTP would otherwise be taken from essential.exefs - `if not self._crypto.otp_keys_set` - so that case says nothing)
        # the engine has a HISTORY: it is handed in by the caller and has already loaded ANOTHER console's OTP (a tool that goes through
        # several NAND backups with one engine) - the keys must be those of the OTP that belongs to this image
        import envsetup
        e = envsetup.install()
        target = 'dev' if desc['dev'] else 'retail'
        okey, oiv = e._otp_key_iv[target]
        _, other_dec, other_enc = nb.make_otp(Rng(desc['otp_seed'] + 77), False, okey, oiv)
        eng = e.CryptoEngine(dev=bool(desc['dev']))
        eng.setup_keys_from_otp(other_dec if desc['otp_history'] == 1 else other_enc)
        kw['crypto'] = eng
    return NAND(bio, dev=bool(desc['dev']), otp=info['otp_arg'], cid=info['cid_arg'], auto_raise_exceptions=bool(desc['auto_raise']), **kw), bio


def view_real(nand, view):
    if view[0] == 'raw':
        return nand.open_raw_section(view[1])
    if view[0] == 'ctr':
        return nand.open_ctr_partition(view[1])
    return nand.open_twl_partition(view[1])


def run_ops(f, ops):
    outs = []
    for op in ops:
        try:
            if op[0] == 'r':
                d = f.read(op[1]); outs.append('b:' + (d.hex() or '-'))
            elif op[0] == 'w':
                outs.append('n:%d' % f.write(op[1]))
            elif op[0] == 's':
                outs.append('n:%d' % f.seek(op[1], op[2]))
            elif op[0] == 't':
                outs.append('n:%d' % f.tell())
        except Exception as e:
            outs.append('e:' + exc_name(e))
    return outs


def op_sexp(op):
    return list(op)


class C13(Check):
    prop = 'C13'
    rule = ('NAND images from an independent builder: OTP (decrypted / encrypted, as argument or inside essential.exefs), CID as '
            'argument / in essential.exefs / withheld, retail and dev key areas, Old/New CTR type, both legal image sizes, '
            'partition tables: standard, permuted, with unknown types, without CTR or without TWL partition, sparse table slots; '
            'MBRs standard / small custom / corrupt; every table entry, named section and MBR sub-partition opened and driven '
            'with read/seek/write histories; then the image is decrypted independently (ECB keystream) and re-opened; '
            'non-trivial = always')
    trusted_base = [
        'Lean 4.33 kernel; axioms propext, Classical.choice, Quot.sound only',
        'AES, SHA-1 and SHA-256 are parameters of the theorems; executable versions in the driver are compared with '
        'Cryptodome/hashlib by the correspondence',
        'harness/nandbuild.py (own OTP key schedule, scramblers, counters, ECB keystream) is the specification of the layout',
        'the GodMode9 bonus volume (needs an image of the full 0.9-1.2 GB size), sector 0x96 and the FAT layers are outside the model',
    ]
    assumptions = ['images are long enough to contain the MBR sector of the CTR/TWL partition', 'counter + block index < 2^128']

    def budget(self, tier):
        return 80 if tier == 'quick' else 800

    def gen(self, rng, tier, i):
        if rng.chance(0.1):
            # partitions placed far out (byte offsets beyond 2^32, block numbers beyond 2^28..2^36) on a virtual image
            return {'huge': True, 'seed': rng.getrandbits(32), 'dev': int(rng.chance(0.3)), 'new3ds': int(rng.chance(0.5)),
                    'base_mu': rng.pick([1 << 23, (1 << 23) + 5, 1 << 27, (1 << 31) - 64, 0x00FFFFF0]),
                    'reads': [[rng.randrange(5), rng.pick([0, 1, 15, 16, 0x1F3, 0x200, 0x3FF]), rng.pick([1, 16, 17, 40])]
                              for _ in range(rng.randint(2, 6))]}
        desc = gen_desc(rng)
        views = [['raw', i] for i, p in enumerate(desc['parts']) if p is not None] + \
                [['raw', k] for k in (-3, -5, -11, -12, -13, -14, -15, -2, -6, 6)] + \
                [['ctr', 0], ['ctr', 1], ['twl', 0], ['twl', 1], ['twl', 3], ['ctr', 4]]
        chosen = rng.sample(views, min(len(views), rng.randint(2, 5)))
        runs = []
        for v in chosen:
            ln = 0x200 * rng.randint(1, 6)
            special = v[0] == 'raw' and v[1] in (-3, -5, -2, -6)
            runs.append({'view': v, 'ops': gen_ops(rng, ln, writes=(not special) and rng.chance(0.6), queries=False)})
        return {'desc': desc, 'runs': runs}

    def run_huge(self, case, drv):
        """NCSD table with the five standard partitions far out on a virtual image; every raw partition view must decrypt with the
        keyslot of its type and counter = base counter + (absolute offset >> 4)"""
        from corr_c01 import VirtualFile
        from pyctr.type.nand import NAND
        e = envsetup.install()
        dev = bool(case['dev'])
        target = 'dev' if dev else 'retail'
        blob = e._b9_keyblob[target]
        okey, oiv = e._otp_key_iv[target]
        rng = Rng(case['seed'])
        _, dec, enc = nb.make_otp(rng, False, okey, oiv)
        cid = rng.rbytes(16)
        keys = nb.console_keys(dec, enc, blob, dev)
        c_ctr, c_twl = nb.counters(cid)
        types = [(1, 1), (4, 2), (3, 2), (3, 2), (1, 3 if case['new3ds'] else 2)]
        fs, cr, table = bytearray(8), bytearray(8), bytearray(0x40)
        pos = case['base_mu']
        parts = []
        for i, (f_, c_) in enumerate(types):
            size = 8 + i
            fs[i], cr[i] = f_, c_
            table[8 * i:8 * i + 8] = struct.pack('<II', pos & 0xFFFFFFFF, size)
            parts.append((pos, size, {1: 'twl', 2: 'ctr_old', 3: 'ctr_new'}.get(c_) if f_ == 1 else
                          ('firm' if f_ == 3 else ('agb' if f_ == 4 else None))))
            pos += size + 3
        if pos >= 1 << 32:
            return CaseResult('skip', 'skip', [], '', None, {'mode:huge-skip': 1})
        header = rng.rbytes(0x100) + b'NCSD' + struct.pack('<IQ', 0x200000, 0) + bytes(fs) + bytes(cr) + bytes(table) + \
            rng.rbytes(0x5E) + bytes(0x42)
        assert len(header) == 0x200, len(header)
        vf = VirtualFile(1 << 44, rng.rbytes(8))
        for i, b in enumerate(header):
            vf.written[i] = b
        mon, outs = [], []
        try:
            nand = NAND(vf, dev=dev, otp=dec, cid=cid, auto_raise_exceptions=False)
        except Exception as ex:     # noqa
            return CaseResult('e:' + exc_name(ex), 'ok', [f'NAND with partitions at media unit {case["base_mu"]:#x} could not be opened: {exc_name(ex)}'],
                              'huge', 'nand.huge', {'mode:huge': 1})
        for idx, rel, n in case['reads']:
            o_mu, size, kind = parts[idx]
            o = o_mu * 0x200
            rel = min(rel, size * 0x200 - n)
            try:
                fh = nand.open_raw_section(idx)
                fh.seek(rel)
                got = fh.read(n)
            except Exception as ex:     # noqa
                outs.append('e:' + exc_name(ex))
                mon.append(f'partition {idx} ({kind}) at {o:#x}: read raised {exc_name(ex)}')
                continue
            ct = vf.content(o + rel, n)
            slot = {'twl': 'twl', 'ctr_old': 'ctr_old', 'ctr_new': 'ctr_new', 'firm': 'firm', 'agb': 'agb'}[kind]
            exp = nb.ctr_xor(keys[nb.SLOT[slot]], c_twl if kind == 'twl' else c_ctr, o + rel, ct, kind == 'twl')
            outs.append(got.hex())
            if got != exp:
                mon.append(f'partition {idx} ({kind}) at byte offset {o:#x}: read({n}) at +{rel:#x} is not the decryption under '
                           f'counter + (offset >> 4)')
        real = ' '.join(outs)
        return CaseResult(real, real, mon, 'huge:%d' % case['seed'], 'nand.huge' if mon else None, {'mode:huge': 1})

    def run_case(self, case, drv):
        if case.get('huge'):
            return self.run_huge(case, drv)
        desc = case['desc']
        img, info = materialise(desc)
        mon = []
        key = None
        common_args = [img, info['otp_arg'] if info['otp_arg'] is not None else 'none',
                       info['cid_arg'] if info['cid_arg'] is not None else 'none', int(desc['dev']), info['blob'], info['okey'],
                       info['oiv'], int(desc['auto_raise'])]
        # --- open
        try:
            nand, bio = open_real(img, info, desc)
            real = [render_real(nand)]
        except Exception as e:
            nand = None
            real = ['e:' + exc_name(e)]
        model = [drv.ask(sexp(['nand-open'] + common_args))]
        kinds = info['kinds']
        first = lambda names: next((i for i in sorted(kinds) if kinds[i] in names), None)
        ci, ti = first(('ctr_old', 'ctr_new')), first(('twl',))
        cid_known = desc['cid_mode'] != 'withheld'

        def plain_of(image, idx):
            po = desc['parts'][idx]['offset_mu'] * 0x200
            n = len(info['parts'][idx]['plain'])
            k = kinds[idx]
            if k is None:
                return image[po:po + n]
            return nb.ctr_xor(info['keys'][nb.SLOT[k]], info['ctrs'][1] if k == 'twl' else info['ctrs'][0], po, image[po:po + n], k == 'twl')

        def parse_mbr(sec):
            if sec[0x1FE:0x200] != b'\x55\xAA':
                return None
            return [(int.from_bytes(sec[0x1BE + 16 * i + 8:0x1BE + 16 * i + 12], 'little') * 0x200,
                     int.from_bytes(sec[0x1BE + 16 * i + 12:0x1BE + 16 * i + 16], 'little') * 0x200) for i in range(4)]

        def expect(image):
            """what a fresh open of `image` must find, derived independently"""
            cp = plain_of(image, ci) if ci is not None else None
            tp = plain_of(image, ti) if ti is not None else None
            e_ctr = info['ctrs'][0] if (cid_known or (cp is not None and cp[0x1D0:0x1F0] == bytes(0x20))) else None
            e_twl = info['ctrs'][1] if (cid_known or (tp is not None and tp[0x1C0:0x1D0] == nb.TWL_STD_1C0 and
                                                      tp[0x1D0:0x1E0] == nb.TWL_STD_1D0)) else None
            csub = parse_mbr(cp[:0x200]) if (cp is not None and e_ctr is not None) else None
            tsub = None
            if tp is not None and e_twl is not None:
                tsub = parse_mbr(tp[:0x200]) or [(77312, 150688256), (151067136, 34301440), (0, 0), (0, 0)]
            return e_ctr, e_twl, csub, tsub

        exp_ctr, exp_twl, csub, tsub = expect(img)
        must_fail = bool(desc['auto_raise']) and (not csub or not tsub)
        info_d = {f'engine loaded another console\'s OTP before:{bool(desc.get("otp_history")) and desc["otp_mode"].startswith("arg")}': 1,
                  f'layout:{desc["layout"]}': 1, f'cid:{desc["cid_mode"]}': 1, f'otp:{desc["otp_mode"]}': 1,
                  f'dev:{desc["dev"]}': 1}
        if nand is None:
            if not must_fail:
                mon.append(f'a well-formed NAND image was rejected with {real[0]}')
                key = 'nand.open.' + real[0][2:]
            elif real[0] != 'e:InvalidNANDError':
                mon.append(f'inaccessible CTR/TWL partitions reported as {real[0]} instead of InvalidNANDError')
                key = 'nand.open.' + real[0][2:]
            info_d['rejected'] = 1
            return CaseResult(real, model, mon, f'{desc["layout"]}:{desc["cid_mode"]}:rej', key, info_d)
        if must_fail:
            mon.append('auto_raise_exceptions did not raise although CTR or TWL partitions are inaccessible')
        # counters and keys
        if nand.counter != exp_ctr:
            mon.append(f'CTR counter {nand.counter} differs from the CID-derived {exp_ctr} (cid {desc["cid_mode"]})')
        if nand.counter_twl != exp_twl:
            mon.append(f'TWL counter {nand.counter_twl} differs from the CID-derived {exp_twl} (cid {desc["cid_mode"]})')
        for s, k in info['keys'].items():
            if nand._crypto.key_normal.get(s) != k:
                mon.append(f'normal key of keyslot {s:#x} differs from the OTP/bootROM derivation')
        if bytes(nand.header) != img[:0x200]:
            mon.append('bytes(header) differs from the original 512 bytes')
        if [tuple(x) for x in nand.ctr_partitions] != (csub or []):
            mon.append('CTR MBR partitions differ from the MBR stored in the partition')
        if [tuple(x) for x in nand.twl_partitions] != (tsub or []):
            mon.append('TWL MBR partitions differ from the MBR stored in the partition (or the default on a corrupt MBR)')
        # --- views
        cur = img
        for run in case['runs']:
            view = run['view']
            ops = [tuple(o) for o in run['ops']]
            # expected plaintext of the view, from the current image
            exp_ctr, exp_twl, csub, tsub = expect(cur)
            opens_at_all = not (bool(desc['auto_raise']) and (not csub or not tsub))
            exp_plain = None
            if view[0] == 'raw':
                sec = view[1]
                idx = sec if 0 <= sec < 8 and desc['parts'][sec] is not None else \
                    {-11: ti, -15: ci, -12: first(('agb',)), -13: first(('firm',)),
                     -14: (sorted(i for i in kinds if kinds[i] == 'firm') + [None, None])[1]}.get(sec)
                if idx is not None:
                    kind = kinds[idx]
                    ok = kind is None or (kind == 'twl' and exp_twl is not None) or (kind not in (None, 'twl') and exp_ctr is not None)
                    if ok:
                        exp_plain = (idx, 0, len(info['parts'][idx]['plain']))
            else:
                idx = ci if view[0] == 'ctr' else ti
                lst = (csub if view[0] == 'ctr' else tsub) or []
                if idx is not None and view[1] < len(lst):
                    exp_plain = (idx, lst[view[1]][0], lst[view[1]][1])
            if not opens_at_all:
                exp_plain = None
            stage = 'e:'
            try:
                nand2, bio2 = open_real(cur, info, desc)
                stage = 'v:'
                f = view_real(nand2, view)
            except Exception as e:
                real.append(stage + exc_name(e))
                model.append(self.model_ops(drv, common_args, cur, view, ops).split(' ')[0])
                if exp_plain is not None:
                    mon.append(f'view {view} could not be opened: {exc_name(e)}')
                continue
            outs = run_ops(f, ops)
            after = bio2.getvalue()
            real.append(f'ok {f._offset}:{f._size} ' + ' '.join(outs) + ' | ' + after.hex())
            model.append(self.model_ops(drv, common_args, cur, view, ops))
            if exp_plain is not None:
                idx, so, sn = exp_plain
                plain = info['parts'][idx]['plain']
                # current plaintext of the partition = decrypt the current image independently
                po = desc['parts'][idx]['offset_mu'] * 0x200
                k = kinds[idx]
                dec = lambda image: plain_of(image, idx)
                before_plain = dec(cur)
                content = before_plain[so:so + sn]
                ref = RefFile(content, True, clamp=True)
                declared = sn
                for op, out in zip(ops, outs):
                    try:
                        if op[0] == 'r':
                            want = 'b:' + (ref.read(op[1]).hex() or '-')
                        elif op[0] == 'w':
                            # the declared window may extend past the stored bytes (standard TWL MBR): only stored bytes count
                            want = None if len(content) < declared else 'n:%d' % ref.write(op[1])
                            if want is None:
                                ref.write(op[1])
                        elif op[0] == 's':
                            if len(content) < declared:
                                want = None
                                try:
                                    ref.seek(op[1], op[2])
                                except ValueError:
                                    pass
                            else:
                                want = 'n:%d' % ref.seek(op[1], op[2])
                        else:
                            want = None if len(content) < declared else 'n:%d' % ref.pos
                    except ValueError:
                        want = 'e:ValueError'
                    if want is not None and out != want:
                        mon.append(f'view {view} ({k}): {op[0]} gave {out[:40]}, plaintext semantics give {want[:40]}')
                        break
                if len(content) == declared and not mon:
                    after_plain = dec(after)
                    want_plain = before_plain[:so] + bytes(ref.content) + before_plain[so + sn:]
                    if after_plain != want_plain:
                        mon.append(f'view {view} ({k}): after the writes the image does not decrypt to the written plaintext')
                    touched = [j for j in range(len(cur)) if j < len(after) and after[j] != cur[j] and not (po + so <= j < po + so + sn)]
                    if touched or len(after) != len(cur):
                        mon.append(f'view {view}: bytes outside the view changed ({touched[:5]})')
            cur = after
            if mon:
                break
        return CaseResult(real, model, mon, f'{desc["layout"]}:{desc["cid_mode"]}:{desc["otp_mode"]}', key, info_d)

    def model_ops(self, drv, common_args, cur, view, ops):
        args = [cur] + common_args[1:]
        return drv.ask(sexp(['nand-ops'] + args + [view, [op_sexp(o) for o in ops]]))

    def shrink(self, case):
        if case.get('huge'):
            for i in range(len(case['reads'])):
                if len(case['reads']) > 1:
                    yield dict(case, reads=case['reads'][:i] + case['reads'][i + 1:])
            return
        runs = case['runs']
        for i in range(len(runs)):
            c = dict(case)
            c['runs'] = runs[:i] + runs[i + 1:]
            yield c
        for i, r in enumerate(runs):
            for j in range(len(r['ops'])):
                c = dict(case)
                c['runs'] = runs[:i] + [{'view': r['view'], 'ops': r['ops'][:j] + r['ops'][j + 1:]}] + runs[i + 1:]
                yield c

    def neighbours(self, case, rng):
        for _ in range(40):
            yield self.gen(rng, 'quick', 0)


CHECK = C13()
