"""Independent DISA / DIFF save-container builder (3dbrew + layout notes validated against the reader)."""
import hashlib
import struct


def ceil_div(a, b):
    return (a + b - 1) // b


def sha(b):
    return hashlib.sha256(b).digest()


def pack_bits(bits):
    """bits -> bytes: MSB-first inside each little-endian u32"""
    out = bytearray()
    bits = list(bits) + [0] * (-len(bits) % 32)
    for i in range(0, len(bits), 32):
        v = 0
        for b in bits[i:i + 32]:
            v = (v << 1) | (1 if b else 0)
        out += v.to_bytes(4, 'little')
    return bytes(out)


def build_partition(rng, data, ivfc_log2=(6, 6, 6, 6), dpfs_log2=(None, 5, 6), external=False, selector=0,
                    uninit_blocks=(), uninit_up=()):
    """returns (descriptor bytes, partition bytes, info)"""
    b1, b2, b3, b4 = (1 << x for x in ivfc_log2)
    D = len(data)
    nb4 = ceil_div(D, b4)
    blocks4 = [data[i * b4:(i + 1) * b4] for i in range(nb4)]
    lv3 = bytearray(b''.join(sha(b.ljust(b4, b'\0')) for b in blocks4))
    for ub in uninit_blocks:       # "uninitialised": expected hash all zero
        if ub < nb4:
            lv3[ub * 0x20:(ub + 1) * 0x20] = bytes(0x20)
    lv3 = bytes(lv3)
    nb3 = ceil_div(len(lv3), b3)
    lv2 = bytearray(b''.join(sha(lv3[i * b3:(i + 1) * b3].ljust(b3, b'\0')) for i in range(nb3)))
    for k, ub in uninit_up:        # a whole level-3 block never written: its expected hash in level 2 is all zero
        if k == 3:
            lv2[(ub % nb3) * 0x20:(ub % nb3 + 1) * 0x20] = bytes(0x20)
    lv2 = bytes(lv2)
    nb2 = ceil_div(len(lv2), b2)
    lv1 = bytearray(b''.join(sha(lv2[i * b2:(i + 1) * b2].ljust(b2, b'\0')) for i in range(nb2)))
    for k, ub in uninit_up:        # ... or a whole level-2 block (zero hash in level 1)
        if k == 2:
            lv1[(ub % nb2) * 0x20:(ub % nb2 + 1) * 0x20] = bytes(0x20)
    lv1 = bytes(lv1)
    nb1 = ceil_div(len(lv1), b1)
    master = b''.join(sha(lv1[i * b1:(i + 1) * b1].ljust(b1, b'\0')) for i in range(nb1))
    # the IVFC levels inside the DPFS level-3 view
    view = bytearray()
    offs = []
    for lvl in ((lv1, b1), (lv2, b2), (lv3, b3)):
        view += b'\0' * (-len(view) % 0x40) if False else b''
        offs.append(len(view))
        view += lvl[0]
        view += rng.rbytes(rng.pick([0, 0, 8]))       # slack between levels
    if not external:
        offs.append(len(view))
        view += data
    else:
        offs.append(0)
    view = bytes(view)
    V = len(view)
    # DPFS
    d3 = 1 << dpfs_log2[2]
    d2 = 1 << dpfs_log2[1]
    n3 = ceil_div(V, d3)
    bits2 = [rng.getrandbits(1) for _ in range(n3)]
    copies3 = [bytearray(rng.rbytes(V)), bytearray(rng.rbytes(V))]
    for blk in range(n3):
        copies3[bits2[blk]][blk * d3:(blk + 1) * d3] = view[blk * d3:(blk + 1) * d3]
    lv2_logical = pack_bits(bits2)
    L2 = len(lv2_logical)
    n2 = ceil_div(L2, d2)
    bits1 = [rng.getrandbits(1) for _ in range(n2)]
    copies2 = [bytearray(rng.rbytes(L2)), bytearray(rng.rbytes(L2))]
    for blk in range(n2):
        copies2[bits1[blk]][blk * d2:(blk + 1) * d2] = lv2_logical[blk * d2:(blk + 1) * d2]
    lv1_logical = pack_bits(bits1)
    L1 = len(lv1_logical)
    copies1 = [bytearray(rng.rbytes(L1)), bytearray(rng.rbytes(L1))]
    copies1[1 if selector else 0] = bytearray(lv1_logical)
    part = bytearray()
    o1 = len(part); part += copies1[0] + copies1[1]
    o2 = len(part); part += copies2[0] + copies2[1]
    o3 = len(part); part += copies3[0] + copies3[1]
    ext_off = 0
    if external:
        part += rng.rbytes(rng.pick([0, 0x10]))
        ext_off = len(part)
        part += data
    # descriptors
    difi = b'DIFI\0\0\x01\0' + struct.pack('<QQQQQQ', 0x44, 0x78, 0xBC, 0x50, 0x10C, len(master)) + \
        bytes([1 if external else 0, selector]) + b'\0\0' + struct.pack('<Q', ext_off)
    ivfc = b'IVFC\0\0\x02\0' + struct.pack('<Q', len(master))
    for (lvl, off, lg) in ((lv1, offs[0], ivfc_log2[0]), (lv2, offs[1], ivfc_log2[1]), (lv3, offs[2], ivfc_log2[2]),
                           (data, offs[3], ivfc_log2[3])):
        ivfc += struct.pack('<QQII', off, len(lvl), lg, 0)
    # the descriptor-size field is not checked by the reader (the descriptor is 0x78 bytes whatever it says): it is data to be kept
    ivfc += struct.pack('<Q', rng.pick([0x78, 0x78, 0x78, 0, 0x70, 0x80, 0x178, rng.getrandbits(64)]))
    dpfs = b'DPFS\0\0\x01\0'
    for (off, size, lg) in ((o1, L1, 0), (o2, L2, dpfs_log2[1]), (o3, V, dpfs_log2[2])):
        dpfs += struct.pack('<QQII', off, size, lg, 0)
    desc = difi + ivfc + dpfs + master
    assert len(difi) == 0x44 and len(ivfc) == 0x78 and len(dpfs) == 0x50
    info = {'data': data, 'view': view, 'ivfc_off': offs, 'ivfc_log2': ivfc_log2, 'levels': [lv1, lv2, lv3],
            'bits2': bits2, 'bits1': bits1, 'o1': o1, 'o2': o2, 'o3': o3, 'V': V, 'L1': L1, 'L2': L2, 'd3': d3, 'd2': d2,
            'ext_off': ext_off, 'external': external, 'selector': selector, 'master_len': len(master), 'nb4': nb4,
            'desc_len': len(desc)}
    return desc, bytes(part), info


def view_to_file(info, pos):
    """partition-relative offset of byte `pos` of the assembled DPFS level-3 view (active copy)"""
    blk = pos // info['d3']
    return info['o3'] + (info['V'] if info['bits2'][blk] else 0) + pos


def lv4_to_partition(info, pos):
    """partition-relative offset of byte `pos` of IVFC level 4"""
    if info['external']:
        return info['ext_off'] + pos
    return view_to_file(info, info['ivfc_off'][3] + pos)


def build_diff(rng, data, active=0, desc_pad=0, **kw):
    desc, part, info = build_partition(rng, data, **kw)
    # the header may declare a descriptor that is LARGER than DIFI + IVFC + DPFS + master hashes (trailing bytes the hash covers too)
    desc = desc + rng.rbytes(desc_pad)
    other = rng.rbytes(len(desc))
    sec_off = 0x200
    prim_off = sec_off + len(desc) + rng.pick([0, 0x10])
    part_off = (prim_off + len(desc) + 0xFF) // 0x100 * 0x100
    header = bytearray(0x100)
    header[0:8] = b'DIFF\0\0\x03\0'
    header[0x8:0x30] = struct.pack('<QQQQQ', sec_off, prim_off, len(desc), part_off, len(part))
    header[0x30:0x34] = (active & 0xFFFFFFFF).to_bytes(4, 'little')       # any non-zero 32-bit value selects the secondary table
    header[0x34:0x54] = sha(desc)
    header[0x54:0x5C] = rng.rbytes(8)
    f = bytearray(rng.rbytes(0x10)) + bytes(0xF0) + header
    f += bytes(sec_off - len(f))
    f += (desc if active else other)
    f += bytes(prim_off - len(f))
    f += (other if active else desc)
    f += bytes(part_off - len(f))
    f += part
    info.update({'kind': 'diff', 'part_off': part_off, 'part_len': len(part), 'desc_off': sec_off if active else prim_off, 'header_hash': (0x100 + 0x34, 0x20),
                 'table_off': sec_off if active else prim_off, 'table_len': len(desc)})
    return bytes(f), [info]


def build_disa(rng, datas, active=0, **kw):
    descs, parts, infos = [], [], []
    for d in datas:
        desc, part, info = build_partition(rng, d, **kw)
        descs.append(desc); parts.append(part); infos.append(info)
    table = bytearray()
    desc_offs = []
    for desc in descs:
        table += rng.rbytes(rng.pick([0, 0, 4]))
        desc_offs.append(len(table))
        table += desc
    table += rng.rbytes(rng.pick([0, 0, 8]))
    table = bytes(table)
    sec_off = 0x200
    prim_off = sec_off + len(table) + rng.pick([0, 0x20])
    pos = (prim_off + len(table) + 0xFF) // 0x100 * 0x100
    part_offs = []
    for p in parts:
        part_offs.append(pos)
        pos = (pos + len(p) + 0xFF) // 0x100 * 0x100
    header = bytearray(0x100)
    header[0:8] = b'DISA\0\0\x04\0'
    header[0x8:0xC] = len(parts).to_bytes(4, 'little')
    header[0x10:0x28] = struct.pack('<QQQ', sec_off, prim_off, len(table))
    header[0x28:0x38] = struct.pack('<QQ', desc_offs[0], len(descs[0]))
    if len(parts) == 2:
        header[0x38:0x48] = struct.pack('<QQ', desc_offs[1], len(descs[1]))
    header[0x48:0x58] = struct.pack('<QQ', part_offs[0], len(parts[0]))
    if len(parts) == 2:
        header[0x58:0x68] = struct.pack('<QQ', part_offs[1], len(parts[1]))
    header[0x68] = (active & 0xFF) or (1 if active else 0)       # any non-zero byte selects the secondary table
    header[0x6C:0x8C] = sha(table)
    f = bytearray(rng.rbytes(0x10)) + bytes(0xF0) + header
    f += bytes(sec_off - len(f))
    other = rng.rbytes(len(table))
    f += (table if active else other)
    f += bytes(prim_off - len(f))
    f += (other if active else table)
    for po, p in zip(part_offs, parts):
        f += bytes(po - len(f))
        f += p
    toff = sec_off if active else prim_off
    for i, info in enumerate(infos):
        info.update({'kind': 'disa', 'part_off': part_offs[i], 'part_len': len(parts[i]), 'desc_off': toff + desc_offs[i], 'header_hash': (0x100 + 0x6C, 0x20),
                     'table_off': toff, 'table_len': len(table)})
    return bytes(f), infos
