"""C04 — the fully-decrypted NCCH view is one consistent, key-free image of the container."""
import io

import ncchbuild
from common import exc_name
from corr_c03 import NcchCheck, SEC_NUM


class C04(NcchCheck):
    prop = 'C04'
    full = True
    rule = ('the NCCH images of C03; on one FullDecrypted handle: a whole read, then seek/read histories with offsets '
            'centred on section and 0x200-chunk boundaries and on the rewritten header bytes 0x188..0x190 (+-{0,1,2,0x1FF,0x200}), lengths 1..0x650, gaps between '
            'sections and the end of the container; metamorphic step: the whole image is fed back to a reader whose '
            'engine has no bootROM keys and every section is compared with the original per-section views; monitor: '
            'slice of the specification image (sections replaced by plaintext, two header bytes rewritten)')
    trusted_base = [
        'Lean 4.33 kernel; axioms propext, Classical.choice, Quot.sound only',
        'the independent Python NCCH builder and its `decrypted_image` are the specification of the key-free image',
        'AES and SHA-256 are parameters in the theorems',
    ]
    assumptions = ['sections do not overlap', 'container size is a multiple of the media unit (always: it is stored in media units)']

    def reparse(self, rd, desc, info, img, eng, e, mon):
        from pyctr.type.ncch import NCCHReader, NCCHSection
        with rd.open_raw_section(NCCHSection.FullDecrypted) as f:
            full = f.read()
        if len(full) != rd.content_size:
            mon.append(f'fully-decrypted image has {len(full)} bytes, container declares {rd.content_size}')
            return
        try:
            r2 = NCCHReader(io.BytesIO(full), crypto=e.CryptoEngine(setup_b9_keys=False), closefd=False)
        except Exception as ex:  # noqa
            mon.append(f're-parsing the decrypted image without keys raised {exc_name(ex)}')
            return
        if not r2.flags.no_crypto and not desc['no_crypto']:
            mon.append('re-parsed image is not reported as unencrypted')
        for name, num in SEC_NUM.items():
            if name in info['lay']:
                try:
                    a = rd.open_raw_section(NCCHSection(num)).read()
                    b = r2.open_raw_section(NCCHSection(num)).read()
                except Exception as ex:  # noqa
                    mon.append(f're-parsed section {name} raised {exc_name(ex)}')
                    continue
                if a != b:
                    mon.append(f're-parsed section {name} differs from the per-section view of the original')
        # bytes outside every encrypted section pass through unchanged (except the two rewritten header bytes)
        enc = set()
        for name in ('extheader', 'exefs', 'romfs'):
            if name in info['lay']:
                s, n = info['lay'][name]
                enc.update(range(s * 0x200, (s + n) * 0x200))
        for i in range(len(img)):
            if i not in enc and i not in (0x18B, 0x18F) and full[i] != img[i]:
                mon.append(f'byte {i:#x} outside every encrypted section was changed')
                break


CHECK = C04()
