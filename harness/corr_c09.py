"""C09 — every sub-file view is confined to its window and obeys basic file semantics."""
import copy

from common import sexp
from filestack import (abs_window, build_real, clamps, is_fixed, node_sexp, run_real, view_content, well_formed)
from framework import CaseResult, Check
from reffile import RefFile


def top_kind(node):
    return node[0] if node[0] != 'cw' else 'cw-' + top_kind(node[1])


def gen_node(rng, depth=0):
    r = rng.random()
    if depth >= 3 or r < 0.12:
        return ['bio', rng.rbytes(rng.pick([0, 1, 5, 10, 20, 33, 40]))]
    if r < 0.60:
        inner = gen_node(rng, depth + 1)
        _, ln = well_formed(inner)
        if rng.chance(0.85):
            off = rng.randint(0, ln)
            size = rng.pick([0, ln - off, rng.randint(0, ln - off)])
        else:   # window reaching past the end of what it is a window of
            off = rng.randint(0, ln + 3)
            size = rng.randint(0, ln + 6)
        return ['sub', off, size, inner]
    if r < 0.78:
        segs = []
        for _ in range(rng.randint(0, 4)):
            inner = gen_node(rng, depth + 2)
            _, ln = well_formed(inner)
            segs.append([inner, rng.pick([0, ln, rng.randint(0, ln)])])
        return ['merge', segs]
    if r < 0.90:
        return ['cw', gen_node(rng, depth + 1)]
    return ['opf', rng.rbytes(rng.pick([0, 1, 7, 16, 30]))]


def gen_ops(rng, ln):
    ops = []
    for _ in range(rng.randint(1, 12)):
        r = rng.random()
        if r < 0.35:
            ops.append(['r', rng.pick([-1, -2, -3, 0, 1, 2, ln, ln + 5, rng.randint(-3, ln + 5)])])
        elif r < 0.55:
            ops.append(['w', rng.rbytes(rng.pick([0, 1, 2, 3, ln, ln + 5, rng.randint(0, ln + 5)]))])
        elif r < 0.90:
            wh = rng.pick([0, 0, 1, 1, 2, 2, 0, 1, 2, 3])
            ops.append(['s', rng.pick([0, 1, -1, ln, ln + 1, -ln, -ln - 1, rng.randint(-ln - 3, ln + 6)]), wh])
        elif r < 0.96:
            ops.append(['t'])
        else:
            ops.append(['q', rng.pick(['readable', 'writable', 'seekable'])])
    return ops


class C09(Check):
    prop = 'C09'
    rule = ('random view stacks (SubsectionIO / SplitFileMerger / CloseWrapper / reader open file, nested up to 3 '
            'deep over BytesIO, windows incl. empty, ending at EOF and reaching past EOF) x op lists of 1-12 '
            'seek/read/write/tell with integer arguments from -len-3 .. len+6 and whence 0-3; a case is '
            'non-trivial when at least one op returned data, stored bytes or raised; distinct = hash(case, outputs)')
    trusted_base = [
        'Lean 4.33 kernel; axioms propext, Classical.choice, Quot.sound only (audited by #print axioms each run)',
        'io.BytesIO semantics modelled by PyFile (validated: every case bottoms out in a real BytesIO)',
        'Driver/Files.lean nodeOps: the recursive knot over the generic view models (partial def, not verified)',
        'harness: generator, canonicalisation, RefFile monitor',
        'theorems assume windows inside the inner file (offset+size <= inner length); windows past EOF are '
        'covered by the correspondence only',
    ]
    assumptions = ['base files behave like io.BytesIO', 'one thread (C15 covers threads)', 'objects not closed (C16)']

    def budget(self, tier):
        return 800 if tier == 'quick' else 6000

    def gen(self, rng, tier, i):
        node = gen_node(rng)
        _, ln = well_formed(node)
        return {'node': node, 'ops': gen_ops(rng, ln)}

    def exhaustive(self, tier):
        # all windows of a 6-byte base x all op pairs from a small alphabet
        if tier != 'thorough':
            return
        base = bytes(range(0x10, 0x16))
        alphabet = ([['r', n] for n in (-2, -1, 0, 1, 3, 7)] + [['w', b] for b in (b'', b'\xaa', b'\xaa\xbb\xcc\xdd')] +
                    [['s', o, w] for w in (0, 1, 2) for o in (-7, -1, 0, 2, 7)] + [['t']])
        for off in range(0, 7):
            for size in range(0, 7 - off):
                for a in alphabet:
                    for b in alphabet:
                        for c in (['r', -1], ['w', b'\xee\xff']):
                            yield {'node': ['sub', off, size, ['bio', base]], 'ops': [a, b, c]}

    def run_case(self, case, drv):
        node, ops = case['node'], [tuple(o) for o in case['ops']]
        leaves = []
        f = build_real(node, leaves)
        wf, _ = well_formed(node)
        fixed = is_fixed(node)
        win = abs_window(node) if len(leaves) == 1 else None
        readonly = any(k in sexp(node_sexp(node)) for k in ('merge', 'opf'))
        mon, key = [], None
        ref = RefFile(view_content(node, [l.getvalue() for l in leaves]), fixed, clamp=clamps(node)) if wf else None
        outs = []
        nontrivial = False
        info = {'top:' + top_kind(node): 1, 'wf:%s' % wf: 1}
        for op in ops:
            before = [l.getvalue() for l in leaves]
            for l in leaves:
                if hasattr(l, 'log'):
                    l.log.clear()
            out = run_real(f, [op])[0]
            outs.append(out)
            after = [l.getvalue() for l in leaves]
            info['op:' + op[0]] = info.get('op:' + op[0], 0) + 1
            if out not in ('b:-', 'n:0'):
                nontrivial = True
            errs = []
            # frame: nothing outside the window changes, whatever the arguments
            if win and win[1] is not None:
                lo, hi = win
                b0 = before[0].ljust(len(after[0]), b'\0')   # bytes that did not exist read as zero-fill
                if b0[:lo] != after[0][:lo] or b0[hi:] != after[0][hi:]:
                    errs.append(f'{op}: bytes outside window [{lo},{hi}) changed')
                for kind, a, b in leaves[0].log:
                    if b > a and (a < lo or b > hi):
                        errs.append(f'{op}: base access [{a},{b}) outside window [{lo},{hi})')
            if op[0] == 'r' and op[1] >= 0 and out.startswith('b:') and len(out) - 2 > 2 * op[1] and out != 'b:-':
                errs.append(f'{op}: returned more than requested')
            if op[0] == 'q':
                if not out.startswith('q:'):
                    errs.append(f'{op}: {out} (must answer without error)')
            elif ref is not None and not (op[0] == 's' and op[2] not in (0, 1, 2)):
                try:
                    if op[0] == 'r':
                        exp = 'b:' + (ref.read(op[1]).hex() or '-')
                    elif op[0] == 'w':
                        if readonly:
                            exp = None
                            if before != after:
                                errs.append(f'{op}: read-only view changed the base')
                        else:
                            exp = 'n:%d' % ref.write(op[1])
                    elif op[0] == 's':
                        exp = 'n:%d' % ref.seek(op[1], op[2])
                    else:
                        exp = 'n:%d' % ref.pos
                except ValueError:
                    exp = 'e:ValueError'
                if exp is not None and exp != out:
                    errs.append(f'{op}: got {out} expected {exp}')
                if not readonly and view_content(node, after) != bytes(ref.content):
                    errs.append(f'{op}: view content differs from the ordinary-file result')
            if errs and not mon:
                mon = errs
                key = f'{top_kind(node)}.{op[0]}'
                break
        qless = [o for o, op in zip(outs, ops) if op[0] != 'q']
        real = ' '.join(qless) + ' | ' + ' '.join((l.getvalue().hex() or '-') for l in leaves)
        model = drv.ask(('fileops', node_sexp(node), tuple(o for o in ops[:len(outs)] if o[0] != 'q')))
        return CaseResult(real, model, mon, sig=real if nontrivial else '', key=key, info=info)

    def shrink(self, case):
        ops = case['ops']
        for i in range(len(ops)):
            yield {'node': case['node'], 'ops': ops[:i] + ops[i + 1:]}
        if case['node'][0] in ('cw',):
            yield {'node': case['node'][1], 'ops': ops}
        for i, op in enumerate(ops):
            if op[0] == 'w' and len(op[1]) > 1:
                yield {'node': case['node'], 'ops': ops[:i] + [['w', op[1][:len(op[1]) // 2]]] + ops[i + 1:]}

    def neighbours(self, case, rng):
        node = case['node']
        _, ln = well_formed(node)
        small = ([['r', n] for n in (-3, -2, -1, 0, 1, 2, ln, ln + 1)] + [['w', rng.rbytes(k)] for k in (0, 1, ln, ln + 2)] +
                 [['s', o, w] for w in (0, 1, 2) for o in (-ln - 1, -1, 0, 1, ln, ln + 2)] + [['t']])
        for a in small:
            for b in small:
                yield {'node': node, 'ops': [a, b, ['r', -1]]}
        for _ in range(300):
            yield {'node': node, 'ops': gen_ops(rng, ln)}


CHECK = C09()
