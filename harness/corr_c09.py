"""C09 — every sub-file view is confined to its window and obeys basic file semantics."""
import copy

from common import sexp
from filestack import well_formed
from stackcheck import StackCheck, gen_ops


def gen_node(rng, depth=0):
    r = rng.random()
    if depth >= 3 or r < 0.12:
        return ['bio', rng.rbytes(rng.pick([0, 1, 5, 10, 20, 33, 40]))]
    if r < 0.60:
        inner = gen_node(rng, depth + 1)
        _, ln = well_formed(inner)
        if rng.chance(0.85):
            off = rng.randint(0, ln)
            size = rng.pick([0, ln - off, rng.randint(0, ln - off)])
        else:   # window reaching past the end of what it is a window of
            off = rng.randint(0, ln + 3)
            size = rng.randint(0, ln + 6)
        return ['sub', off, size, inner]
    if r < 0.78:
        segs = []
        for _ in range(rng.randint(0, 4)):
            inner = gen_node(rng, depth + 2)
            _, ln = well_formed(inner)
            segs.append([inner, rng.pick([0, ln, rng.randint(0, ln)])])
        return ['merge', segs]
    if r < 0.90:
        return ['cw', gen_node(rng, depth + 1)]
    return ['opf', rng.rbytes(rng.pick([0, 1, 7, 16, 30]))]


class C09(StackCheck):
    prop = 'C09'
    rule = ('random view stacks (SubsectionIO / SplitFileMerger / CloseWrapper / reader open file, nested up to 3 '
            'deep over BytesIO, windows incl. empty, ending at EOF and reaching past EOF) x op lists of 1-12 '
            'seek/read/write/tell with integer arguments from -len-3 .. len+6 and whence 0-3; a case is '
            'non-trivial when at least one op returned data, stored bytes or raised; distinct = hash(case, outputs)')
    trusted_base = [
        'Lean 4.33 kernel; axioms propext, Classical.choice, Quot.sound only (audited by #print axioms each run)',
        'io.BytesIO semantics modelled by PyFile (validated: every case bottoms out in a real BytesIO)',
        'Driver/Files.lean nodeOps: the recursive knot over the generic view models (partial def, not verified)',
        'harness: generator, canonicalisation, RefFile monitor',
        'theorems assume windows inside the inner file (offset+size <= inner length); windows past EOF are '
        'covered by the correspondence only',
    ]
    assumptions = ['base files behave like io.BytesIO', 'one thread (C15 covers threads)', 'objects not closed (C16)']

    def budget(self, tier):
        return 800 if tier == 'quick' else 6000

    def gen(self, rng, tier, i):
        node = gen_node(rng)
        _, ln = well_formed(node)
        return {'node': node, 'ops': gen_ops(rng, ln)}

    def exhaustive(self, tier):
        # all windows of a 6-byte base x all op pairs from a small alphabet
        if tier != 'thorough':
            return
        base = bytes(range(0x10, 0x16))
        alphabet = ([['r', n] for n in (-2, -1, 0, 1, 3, 7)] + [['w', b] for b in (b'', b'\xaa', b'\xaa\xbb\xcc\xdd')] +
                    [['s', o, w] for w in (0, 1, 2) for o in (-7, -1, 0, 2, 7)] + [['t']])
        for off in range(0, 7):
            for size in range(0, 7 - off):
                for a in alphabet:
                    for b in alphabet:
                        for c in (['r', -1], ['w', b'\xee\xff']):
                            yield {'node': ['sub', off, size, ['bio', base]], 'ops': [a, b, c]}


CHECK = C09()
