"""C09 — every sub-file view is confined to its window and obeys basic file semantics."""
import copy

from common import exc_name, sexp
from filestack import LogBytesIO, run_real, well_formed
from framework import CaseResult
from reffile import RefFile
from stackcheck import StackCheck, gen_ops


def gen_node(rng, depth=0):
    r = rng.random()
    if depth >= 3 or r < 0.12:
        return ['bio', rng.rbytes(rng.pick([0, 1, 5, 10, 20, 33, 40]))]
    if r < 0.60:
        inner = gen_node(rng, depth + 1)
        _, ln = well_formed(inner)
        if rng.chance(0.85):
            off = rng.randint(0, ln)
            size = rng.pick([0, ln - off, rng.randint(0, ln - off)])
        else:   # window reaching past the end of what it is a window of
            off = rng.randint(0, ln + 3)
            size = rng.randint(0, ln + 6)
        return ['sub', off, size, inner]
    if r < 0.78:
        segs = []
        for _ in range(rng.randint(0, 4)):
            inner = gen_node(rng, depth + 2)
            _, ln = well_formed(inner)
            segs.append([inner, rng.pick([0, ln, rng.randint(0, ln)])])
        return ['merge', segs]
    if r < 0.90:
        return ['cw', gen_node(rng, depth + 1)]
    return ['opf', rng.rbytes(rng.pick([0, 1, 7, 16, 30]))]


class C09(StackCheck):
    prop = 'C09'
    rule = ('random view stacks (SubsectionIO / SplitFileMerger / CloseWrapper / reader open file, nested up to 3 '
            'deep over BytesIO, windows incl. empty, ending at EOF and reaching past EOF) x op lists of 1-12 '
            'seek/read/write/tell with integer arguments from -len-3 .. len+6 and whence 0-3; a quarter of the cases: 2-4 views on '
            'ONE base object (windows on the base and windows on windows) used alternately, the base object itself moved in between; a case is '
            'non-trivial when at least one op returned data, stored bytes or raised; distinct = hash(case, outputs)')
    trusted_base = [
        'Lean 4.33 kernel; axioms propext, Classical.choice, Quot.sound only (audited by #print axioms each run)',
        'io.BytesIO semantics modelled by PyFile (validated: every case bottoms out in a real BytesIO)',
        'Driver/Files.lean nodeOps: the recursive knot over the generic view models (partial def, not verified)',
        'harness: generator, canonicalisation, RefFile monitor',
        'theorems assume windows inside the inner file (offset+size <= inner length); windows past EOF are '
        'covered by the correspondence only',
    ]
    assumptions = ['base files behave like io.BytesIO', 'one thread (C15 covers threads)', 'objects not closed (C16)']

    def budget(self, tier):
        return 800 if tier == 'quick' else 6000

    def gen(self, rng, tier, i):
        if rng.chance(0.25):
            return self.gen_shared(rng)
        node = gen_node(rng)
        _, ln = well_formed(node)
        return {'node': node, 'ops': gen_ops(rng, ln)}

    # ---- several views onto ONE base object, used alternately by one thread (windows on the base, windows on windows, and the base
    # object itself moved by its owner in between): each call must behave as if its view were the only one
    def gen_shared(self, rng):
        base = rng.rbytes(rng.pick([8, 20, 33, 64]))
        views, lens = [], []
        for k in range(rng.randint(2, 4)):
            parent = rng.pick([-1] + list(range(len(views))))
            ln = len(base) if parent < 0 else lens[parent]
            off = rng.randint(0, ln)
            size = rng.pick([ln - off, rng.randint(0, ln - off)])
            views.append([parent, off, size])
            lens.append(size)
        ops = []
        for _ in range(rng.randint(4, 14)):
            k = rng.randrange(-1, len(views))
            if k < 0:
                ops.append([-1, ['sr', rng.randint(0, len(base)), rng.randint(0, 6)]])
            elif any(v[0] == k for v in views):
                # a view that other views are windows of is THEIR base object: its position is theirs to move, so its owner uses it
                # the way the base is used - an absolute seek followed by a read
                ops.append([k, ['sr', rng.randint(0, lens[k]), rng.randint(0, 6)]])
            else:
                ops.append([k, gen_ops(rng, lens[k])[0]])
        return {'base': base, 'views': views, 'ops': ops}

    def run_case(self, case, drv):
        if 'views' not in case:
            return super().run_case(case, drv)
        from pyctr.fileio import SubsectionIO
        basef = LogBytesIO(case['base'])
        objs, lo, size, nodes = [], [], [], []
        ref = bytearray(case['base'])
        for parent, off, sz in case['views']:
            objs.append(SubsectionIO(basef if parent < 0 else objs[parent], off, sz))
            lo.append(off if parent < 0 else lo[parent] + off)
            size.append(sz)
        pos = [0] * len(objs)

        def node_of(k, content):
            parent, off, sz = case['views'][k]
            return ('sub', off, sz, ('bio', content) if parent < 0 else node_of(parent, content))
        outs, models, mon = [], [], []
        for k, op in case['ops']:
            op = tuple(op)
            if k < 0:
                basef.seek(op[1])
                got = basef.read(op[2])
                outs.append('b:' + (got.hex() or '-'))
                models.append('b:' + (bytes(ref[op[1]:op[1] + op[2]]).hex() or '-'))
                continue
            if op[0] == 'q' or (op[0] == 's' and op[2] not in (0, 1, 2)):
                continue
            if op[0] == 'sr':
                objs[k].seek(op[1])
                got = objs[k].read(op[2])
                outs.append('b:' + (got.hex() or '-'))
                w = bytes(ref[lo[k]:lo[k] + size[k]])
                models.append('b:' + (w[op[1]:op[1] + op[2]].hex() or '-'))
                if outs[-1] != models[-1] and not mon:
                    mon.append(f'view {k} {case["views"][k]}: seek({op[1]}); read({op[2]}) returned {outs[-1]} instead of {models[-1]}')
                continue
            before = bytes(ref)
            out = run_real(objs[k], [op])[0]
            outs.append(out)
            r = RefFile(ref[lo[k]:lo[k] + size[k]], True, pos=pos[k], clamp=True)
            try:
                exp = {'r': lambda: 'b:' + (r.read(op[1]).hex() or '-'), 'w': lambda: 'n:%d' % r.write(op[1]),
                       's': lambda: 'n:%d' % r.seek(op[1], op[2]), 't': lambda: 'n:%d' % r.pos}[op[0]]()
            except ValueError:
                exp = 'e:ValueError'
            m = drv.ask(('fileops', node_of(k, before), (('s', pos[k], 1), op))).split(' | ')[0].split(' ')
            models.append(m[1] if len(m) > 1 else 'none')
            pos[k] = r.pos
            ref[lo[k]:lo[k] + size[k]] = r.content
            if out != exp and not mon:
                mon.append(f'view {k} {case["views"][k]} {op}: got {out}, a view used alone gives {exp} (other views / the owner of the '
                           f'base were active in between)')
            if basef.getvalue() != bytes(ref) and not mon:
                mon.append(f'view {k} {op}: the base file differs from the writes laid over it (a byte outside the window changed, or '
                           f'data went to the wrong place)')
        real = ' '.join(outs) + ' | ' + basef.getvalue().hex()
        model = ' '.join(models) + ' | ' + bytes(ref).hex()
        return CaseResult(real, model, mon, sig=real, key=None, info={'stack:shared-base x%d' % len(objs): 1})

    def shrink(self, case):
        if 'views' not in case:
            yield from super().shrink(case)
            return
        for i in range(len(case['ops'])):
            yield dict(case, ops=case['ops'][:i] + case['ops'][i + 1:])

    def neighbours(self, case, rng):
        if 'views' not in case:
            yield from super().neighbours(case, rng)
            return
        for _ in range(200):
            yield self.gen_shared(rng)

    def exhaustive(self, tier):
        # a merged split file of three segments (one of them a window): every history of three seeks / reads from a small alphabet
        # (absolute, relative and end-relative, landing inside each segment, on the boundaries, at and past the end), then a
        # bounded read and tell - whatever the merger remembers about "the current segment" is put to the test
        segs = [[['bio', bytes(range(0x20, 0x23))], 3], [['sub', 1, 4, ['bio', bytes(range(0x30, 0x37))]], 4], [['bio', bytes(range(0x40, 0x42))], 2]]
        alpha = ([['s', o, 0] for o in (0, 2, 3, 5, 7, 9, 12)] + [['s', o, 1] for o in (-7, -3, -1, 2, 5)] +
                 [['s', o, 2] for o in (-9, -4, 0, 3)] + [['r', n] for n in (-1, 0, 2, 20)])
        for a in alpha:
            for b in alpha:
                for c in alpha:
                    yield {'node': ['merge', segs], 'ops': [a, b, c, ['r', 2], ['t']]}
        # all windows of a 6-byte base x all op pairs from a small alphabet
        if tier != 'thorough':
            return
        base = bytes(range(0x10, 0x16))
        alphabet = ([['r', n] for n in (-2, -1, 0, 1, 3, 7)] + [['w', b] for b in (b'', b'\xaa', b'\xaa\xbb\xcc\xdd')] +
                    [['s', o, w] for w in (0, 1, 2) for o in (-7, -1, 0, 2, 7)] + [['t']])
        for off in range(0, 7):
            for size in range(0, 7 - off):
                for a in alphabet:
                    for b in alphabet:
                        for c in (['r', -1], ['w', b'\xee\xff']):
                            yield {'node': ['sub', off, size, ['bio', base]], 'ops': [a, b, c]}


CHECK = C09()
