"""Line-event counting for pyctr code (sys.monitoring) with a hard budget: the C19 cost observable."""
import os
import sys

TOOL = 3


class BudgetExceeded(BaseException):
    pass


class Counter:
    def __init__(self):
        self.n = 0
        self.budget = None
        self.active = False
        import pyctr
        self.root = os.path.dirname(pyctr.__file__)
        mon = sys.monitoring
        try:
            mon.use_tool_id(TOOL, 'verif-c19')
        except ValueError:
            pass
        mon.register_callback(TOOL, mon.events.LINE, self._line)
        mon.register_callback(TOOL, mon.events.PY_START, self._start)

    def _start(self, code, offset):
        # only pyctr's own code is counted; everything else disables itself
        if not code.co_filename.startswith(self.root):
            return sys.monitoring.DISABLE

    def _line(self, code, line):
        if not code.co_filename.startswith(self.root):
            return sys.monitoring.DISABLE
        self.n += 1
        if self.budget is not None and self.n > self.budget:
            self.budget = None
            raise BudgetExceeded()

    def run(self, fn, budget):
        """-> (outcome, events): outcome = ('ok', value) | ('exc', name) | ('budget',)"""
        mon = sys.monitoring
        self.n = 0
        self.budget = budget
        mon.set_events(TOOL, mon.events.LINE | mon.events.PY_START)
        mon.restart_events()
        try:
            try:
                v = fn()
                out = ('ok', v)
            except BudgetExceeded:
                out = ('budget',)
            except MemoryError:
                out = ('exc', 'MemoryError')
            except RecursionError:
                out = ('exc', 'RecursionError')
            except Exception as e:      # noqa
                out = ('exc', type(e).__name__)
        finally:
            mon.set_events(TOOL, 0)
            self.budget = None
        return out, self.n
