#!/bin/bash
# usage: harness/seed_refresh.sh <seed-name>...   -- re-runs the property's check against an archived seeded change after the check
# was strengthened; keeps the first (missing) result in meta.json as checks_run_first and records the new one.
# SEED_REPO=<scratch copy of the repository> patches that copy and runs the check against it (VERIF_REPO) instead of /repo.
cd "$(dirname "$0")/.."
R="${SEED_REPO:-/repo}"
for n in "$@"; do
  d=seeded/$n; p=${n%%-*}
  git -C "$R" status --short | grep -q . && { echo "$R not clean"; exit 2; }
  git -C "$R" apply "$PWD/$d/patch.diff" || { echo "$n: does not apply"; continue; }
  out=$(VERIF_REPO="$R" timeout 900 ./check $p 2>&1 | grep -v "^KNOWN" | tail -2 | head -1)
  git -C "$R" checkout -q -- .
  /venv/bin/python - "$d/meta.json" "$p: $out" <<'PY'
import json,sys
m=json.load(open(sys.argv[1]))
if 'checks_run_first' not in m:
    m['checks_run_first']=m['checks_run']
m['checks_run']=[sys.argv[2]]
m['note']=(m.get('note','')+' ' if m.get('note') else '')+'missed when first applied; the generator was generalised (DESIGN 11.0) and the check re-run'
json.dump(m,open(sys.argv[1],'w'),indent=1)
PY
  echo "$n: $out"
done
