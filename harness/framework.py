"""Decision procedure shared by every property check (DESIGN §1.2)."""
import argparse
import signal
import concurrent.futures as cf
import importlib
import json
import os
import sys
import time
import traceback

from common import (VERIF, REPO, Driver, Rng, audit, case_hash, dump_json, grep_forbidden, lake_build,
                    load_known_findings, revive, seed_from_env, _js)


class CaseResult:
    """Outcome of one case.

    real / model : canonicalised observables (anything JSON-able); compared for the correspondence
    monitor      : list of strings, each one a way the *property statement* fails on the real outputs
    sig          : branch signature used to count distinct non-trivial cases ('' = trivial)
    key          : site/input-class key of a monitor failure, matched against known_findings.txt
    """

    def __init__(self, real, model, monitor=(), sig='', key=None, info=None):
        self.real, self.model, self.monitor, self.sig, self.key, self.info = real, model, list(monitor), sig, key, info


class CaseTimeout(BaseException):
    pass


def _alarm(signum, frame):
    raise CaseTimeout()


def run_with_timeout(fn, seconds, *a):
    """run fn(*a) under a wall-clock alarm (the implementation under test may hang on a bad input)"""
    old = signal.signal(signal.SIGALRM, _alarm)
    signal.setitimer(signal.ITIMER_REAL, seconds)
    try:
        return fn(*a)
    finally:
        signal.setitimer(signal.ITIMER_REAL, 0)
        signal.signal(signal.SIGALRM, old)


class Check:
    prop = None
    case_timeout = 30          # seconds per case; a case that exceeds it is reported, never waited for
    hang_is_violation = False  # True for properties that are about termination (C19)
    level = 'proof'
    rule = ''
    trusted_base = []
    assumptions = []
    workers = {'quick': 4, 'thorough': 16}

    def budget(self, tier):            # number of generated cases per shard
        return 100

    def corpus(self):                  # minimised past failures: run first (shard 0 only)
        return []

    def gen(self, rng, tier, i):       # -> case (JSON-able)
        raise NotImplementedError

    def exhaustive(self, tier):        # optional finite enumeration (split across shards)
        return []

    def run_case(self, case, drv):     # -> CaseResult
        raise NotImplementedError

    def shrink(self, case):            # -> iterable of smaller cases
        return []

    def neighbours(self, case, rng):   # failing-input search around a broken correspondence
        return []

    def setup_worker(self):
        pass


def _shrink(check, case, drv, pred, limit=400):
    """greedy shrink while pred(result) holds"""
    n = 0
    improved = True
    while improved and n < limit:
        improved = False
        for c in check.shrink(case):
            n += 1
            try:
                r = check.run_case(c, drv)
            except Exception:
                continue
            if pred(r):
                case, improved = c, True
                break
            if n >= limit:
                break
    return case


def run_shard(modname, tier, seed, shard, nshards, replay_case=None):
    mod = importlib.import_module(modname)
    check = mod.CHECK
    check.setup_worker()
    drv = Driver()
    rng = Rng(f'{seed}/{shard}')
    known = load_known_findings().get(check.prop, {})
    stats = {'evaluations': 0, 'sigs': {}, 'samples': [], 'known_hits': {}, 'corr_ok': 0, 'dist': {}}
    outcome = None

    def cases():
        if replay_case is not None:
            yield 'replay', replay_case
            return
        if shard == 0:
            for c in check.corpus():
                yield 'corpus', c
        for j, c in enumerate(check.exhaustive(tier)):
            if j % nshards == shard:
                yield 'exhaustive', c
        for i in range(check.budget(tier)):
            yield 'random', check.gen(rng, tier, i)

    pending = None          # a broken correspondence for which no failing input has been found yet
    search_until = None
    try:
        for origin, case in cases():
            if pending is not None and time.time() > search_until:
                break
            try:
                res = run_with_timeout(check.run_case, check.case_timeout, case, drv)
            except CaseTimeout:
                if check.hang_is_violation:
                    outcome = {'kind': 'failing-input', 'case': case, 'monitor': [f'no result within {check.case_timeout}s (hang)'],
                               'key': 'hang', 'observed': 'timeout', 'model_output': None, 'origin': origin}
                    break
                # not a property about termination: a case that is merely SLOW (a loaded machine, a large image) must not turn into
                # a verdict or an error.  The case is written out, the model driver is restarted (the alarm may have interrupted an
                # exchange with it) and the case is run once more with six times the limit; only a second expiry is reported
                slow_path = os.path.join(VERIF, 'replays', f'{check.prop}-slow-{case_hash(case)}.json')
                try:
                    dump_json({'property': check.prop, 'kind': 'slow-case', 'case': case, 'limit_s': check.case_timeout}, slow_path)
                except Exception:   # noqa
                    pass
                try:
                    drv.close()
                except Exception:   # noqa
                    pass
                drv = Driver()
                try:
                    res = run_with_timeout(check.run_case, 6 * check.case_timeout, case, drv)
                    stats['dist']['slow case (finished on the retry with 6x the limit)'] = \
                        stats['dist'].get('slow case (finished on the retry with 6x the limit)', 0) + 1
                except CaseTimeout:
                    outcome = {'kind': 'harness-error', 'case': case,
                               'trace': f'case did not finish within {check.case_timeout}s nor within {6 * check.case_timeout}s on the '
                                        f'retry (implementation hang?); case written to {slow_path}'}
                    break
            except Exception as ex:     # noqa
                # an exception the harness did not anticipate: when it was raised INSIDE pyctr (innermost frame under the
                # repository) the implementation failed on an operation that succeeds on the tree the check was built against -
                # that is an observation about the code, reported with the case as replay; anything else is a harness error
                tb = traceback.extract_tb(ex.__traceback__)
                inner = tb[-1] if tb else None
                if inner is not None and os.path.abspath(inner.filename).startswith(os.path.join(os.path.abspath(REPO), 'pyctr')):
                    where = f'{os.path.relpath(inner.filename, REPO)}:{inner.lineno}'
                    outcome = {'kind': 'failing-input', 'case': case,
                               'monitor': [f'pyctr raised {type(ex).__name__}: {ex} at {where} during an operation the check '
                                           f'expects to succeed'],
                               'key': f'raised.{type(ex).__name__}', 'observed': 'e:' + type(ex).__name__, 'model_output': None,
                               'origin': origin}
                    if outcome['key'] in known:
                        stats['known_hits'][outcome['key']] = known[outcome['key']]
                        outcome = None
                        continue
                    break
                raise
            stats['evaluations'] += 1
            if res.info:
                for k in res.info:
                    stats['dist'][k] = stats['dist'].get(k, 0) + 1
            if res.sig:
                h = case_hash([case, res.sig])
                stats['sigs'][h] = 1
            if len(stats['samples']) < 3 and res.sig:
                stats['samples'].append({'origin': origin, 'case': case, 'real': res.real})
            known_here = False
            if res.monitor:
                # the property statement fails on the real code
                if res.key is not None and res.key in known:
                    stats['known_hits'][res.key] = known[res.key]
                    known_here = True
                else:
                    small = _shrink(check, case, drv, lambda r: bool(r.monitor) and r.key == res.key)
                    rs = check.run_case(small, drv)
                    if rs.key is not None and rs.key in known:
                        stats['known_hits'][rs.key] = known[rs.key]
                        known_here = True
                    else:
                        outcome = {'kind': 'failing-input', 'case': small, 'shrunk_from': case, 'monitor': rs.monitor,
                                   'key': rs.key, 'observed': rs.real, 'model_output': rs.model, 'origin': origin}
                        break
            # a listed finding suppresses only the monitor line: the model reproduces the recorded behaviour exactly, so the
            # implementation is still compared with it on this case (a different misbehaviour on the same inputs is not hidden)
            if res.real != res.model and pending is not None:
                continue
            if res.real != res.model:
                # broken correspondence: search for an input on which the property itself fails
                found = None
                tried = 0
                for c in check.neighbours(case, rng):
                    tried += 1
                    try:
                        r = check.run_case(c, drv)
                    except Exception:
                        continue
                    stats['evaluations'] += 1
                    if r.monitor and not (r.key in known):
                        found = (c, r)
                        break
                if found:
                    c, r = found
                    small = _shrink(check, c, drv, lambda q: bool(q.monitor) and q.key == r.key)
                    rs = check.run_case(small, drv)
                    outcome = {'kind': 'failing-input', 'case': small, 'shrunk_from': case, 'monitor': rs.monitor,
                               'key': rs.key, 'observed': rs.real, 'model_output': rs.model,
                               'origin': 'search-after-broken-correspondence'}
                else:
                    small = _shrink(check, case, drv, lambda q: q.real != q.model and not q.monitor)
                    rs = check.run_case(small, drv)
                    # nothing in the neighbourhood: keep the broken correspondence and go on through the remaining cases of this
                    # shard (bounded in time) looking for an input on which a monitor fails
                    pending = {'kind': 'broken-correspondence', 'case': small, 'shrunk_from': case,
                               'observed': rs.real, 'model_output': rs.model, 'searched': tried,
                               'broken': f'correspondence {check.prop}: Lean model driver vs pyctr on the same case',
                               'origin': origin}
                    search_until = time.time() + (45 if tier != 'thorough' else 300)
                    continue
                break
            stats['corr_ok'] += 1
    except Exception:
        outcome = {'kind': 'harness-error', 'trace': traceback.format_exc()}
    finally:
        drv.close()
    if pending is not None and (outcome is None or outcome['kind'] == 'harness-error'):
        pending['searched'] = f"{pending['searched']} neighbours + {stats['evaluations']} cases of the shard"
        outcome = pending
    stats['distinct'] = list(stats.pop('sigs').keys())
    return stats, outcome


def main(modname, argv=None):
    ap = argparse.ArgumentParser()
    ap.add_argument('--tier', default=os.environ.get('VERIF_TIER', 'quick'))
    ap.add_argument('--replay')
    ap.add_argument('--no-build', action='store_true')
    args = ap.parse_args(argv)
    tier = args.tier if args.tier in ('quick', 'thorough') else 'quick'
    seed = seed_from_env()
    t0 = time.time()
    sys.path.insert(0, os.path.dirname(os.path.abspath(__file__)))
    mod = importlib.import_module(modname)
    check = mod.CHECK
    prop = check.prop

    # (P) proof obligations compile
    ok, log = lake_build()
    if not ok:
        print(log[-3000:])
        print(f'ERROR: lake build failed (framework problem, not a verdict on {prop})')
        return 2
    # (A) axiom audit
    names, discharged, details, bad = audit(prop)
    forb = grep_forbidden()
    if bad or forb:
        print('ERROR: axiom audit failed', bad, forb)
        return 2
    if tier == 'thorough':
        pass  # leanchecker is run by ./check for the thorough tier (see check script)

    if args.replay:
        rp = revive(json.load(open(args.replay)))
        stats, outcome = run_shard(modname, tier, seed, 0, 1, replay_case=rp['case'])
        print(json.dumps({'outcome': outcome}, default=_js, indent=1)[:4000])
        return 1 if outcome else 0

    n = check.workers.get(tier, 4)
    results = []
    deadline = time.time() + (900 if tier == 'quick' else 5400)
    ex = cf.ProcessPoolExecutor(max_workers=n)
    try:
        futs = [ex.submit(run_shard, modname, tier, seed, s, n) for s in range(n)]
        for f in futs:
            try:
                results.append(f.result(timeout=max(1, deadline - time.time())))
            except cf.TimeoutError:
                results.append(({'evaluations': 0, 'distinct': [], 'samples': [], 'known_hits': {}, 'corr_ok': 0, 'dist': {}},
                                {'kind': 'harness-error', 'trace': 'shard exceeded the run deadline'}))
    finally:
        for pr in list(getattr(ex, '_processes', {}).values()):
            if pr.is_alive():
                pr.kill()
        ex.shutdown(wait=False, cancel_futures=True)

    evaluations = sum(r[0]['evaluations'] for r in results)
    distinct = set()
    samples = []
    known_hits = {}
    dist = {}
    for st, _ in results:
        distinct.update(st['distinct'])
        samples.extend(st['samples'])
        known_hits.update(st['known_hits'])
        for k, v in st['dist'].items():
            dist[k] = dist.get(k, 0) + v
    outcomes = [o for _, o in results if o]
    errors = [o for o in outcomes if o['kind'] == 'harness-error']
    viols = [o for o in outcomes if o['kind'] != 'harness-error']

    for k, txt in sorted(known_hits.items()):
        print(f'KNOWN-FINDING: property={prop} {k} {txt}')

    rc = 0
    replay_path = None
    if viols:
        # prefer a concrete failing input over a bare broken correspondence
        viols.sort(key=lambda o: 0 if o['kind'] == 'failing-input' else 1)
        o = viols[0]
        o.update({'property': prop, 'seed': seed, 'tier': tier})
        replay_path = os.path.join(VERIF, 'replays', f'{prop}-{case_hash(o["case"])}.json')
        dump_json(o, replay_path)
        tail = '' if o['kind'] == 'failing-input' else ' no-failing-input-found'
        print(f'VIOLATION property={prop} replay={replay_path}{tail}')
        rc = 1
    elif errors:
        print(errors[0]['trace'])
        print('ERROR: harness error')
        rc = 2

    ev = {
        'property_id': prop, 'tier': tier, 'seed': seed, 'level': check.level,
        'coverage': {
            'obligations': len(names), 'discharged': discharged,
            'checker_cmd': f'cd lean && lake build Props.{prop} && lake env lean <#print axioms of every theorem in Props/{prop}.lean>'
                           + (' && lake env leanchecker Props.' + prop if tier == 'thorough' else ''),
            'trusted_base': check.trusted_base,
            'theorems': {n_: details.get(n_, []) for n_ in names},
            'evaluations': evaluations, 'distinct_nontrivial': len(distinct),
            'rule': check.rule, 'samples': samples[:4],
            'traces_validated_against_impl': sum(r[0]['corr_ok'] for r in results),
            'input_distribution': dist,
            'known_findings_hit': sorted(known_hits),
            'repo': REPO,
        },
        'assumptions': check.assumptions,
        'wall_s': round(time.time() - t0, 2),
        'violations': len(viols),
    }
    if rc != 2:
        dump_json(ev, os.path.join(VERIF, 'evidence', f'{prop}.json'))
    print(f'{prop} {tier}: theorems {discharged}/{len(names)} cases {evaluations} distinct {len(distinct)} '
          f'known {len(known_hits)} rc={rc} {ev["wall_s"]}s')
    return rc
